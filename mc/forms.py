"""Input forms: the same valid data handed to the public API in another legitimate way.

Every property quantifies over *inputs*, not over the memory layout of the arrays that carry them.  The harnesses build
fresh contiguous arrays; this module re-runs a thinned version of every harness body with the arguments of each
*outermost* call into the package converted, at the package boundary, to

  strided    a non-contiguous view (every second element of a buffer whose other elements are garbage)
  readonly   a copy with the WRITEABLE flag cleared
  shared     all 1-D arrays of one call that have the same length and dtype become columns of ONE C-ordered 2-D buffer
             (x and y share memory, both non-contiguous); arrays with equal content become the same object
  negstride  a view with a negative stride (a[::-1].copy()[::-1])
  positional / keyword   the same call with keyword arguments passed by position / positional arguments passed by name,
             according to the documented signatures recorded in mc/api_signatures.json (tools/gen_signatures.py)
  intparam   float parameters with an integral value as Python ints
  series     1-D arrays as pandas Series whose integer labels are not the positions ("array-like")
  npscalar   Python bool / int / float parameters as NumPy scalars (np.bool_ / np.int64 / np.float64)

The case checkers and reference models are untouched: they judge the results exactly as they judge them for
contiguous input (the oracle never demands more than the property).  The boundary is implemented by wrapping the public
callables of the package (functions, methods, constructors) with a re-entrancy counter, so calls the package makes
internally are not converted.  `COUNT` records how many arguments were converted (non-vacuity).
"""
import functools
import importlib
import inspect
import pkgutil

import numpy as np

FORMS = ("strided", "readonly", "shared", "negstride", "npscalar", "intparam", "positional", "keyword")
FULL_LABELS = ("op0", "invalid-call")     # choices that are never thinned: every operation / request meets every form
_SIGS = None


def _sigs():
    global _SIGS
    if _SIGS is None:
        import json
        import os
        with open(os.path.join(os.path.dirname(os.path.abspath(__file__)), "api_signatures.json")) as f:
            _SIGS = json.load(f)
    return _SIGS


def recall(fn, args, kwargs, form):
    """the same call in the other calling convention, according to the DOCUMENTED signature (mc/api_signatures.json):
    'positional' passes every keyword argument by position (filling skipped optional parameters with their documented
    defaults), 'keyword' passes every argument after self by its documented name.  -> (args, kwargs, converted)"""
    sig = _sigs().get("%s.%s" % (fn.__module__, fn.__qualname__))
    if not sig or any(k in ("VAR_POSITIONAL", "POSITIONAL_ONLY") for _, k, _ in sig):
        return args, kwargs, 0
    names = [n for n, k, _ in sig if k == "POSITIONAL_OR_KEYWORD"]
    defaults = {n: d for n, k, d in sig}
    if form == "keyword":
        first = 1 if names and names[0] in ("self", "cls") else 0
        if len(args) <= first or len(args) > len(names):
            return args, kwargs, 0
        kw = dict(kwargs)
        for n, v in zip(names[first:], args[first:]):
            if n in kw:
                return args, kwargs, 0
            kw[n] = v
        return tuple(args[:first]), kw, len(args) - first
    kw = dict(kwargs)
    out = list(args)
    conv = 0
    for n in names[len(args):]:
        if not any(k in kw for k in names[names.index(n):]):
            break
        if n in kw:
            out.append(kw.pop(n))
            conv += 1
        elif isinstance(defaults.get(n), dict):
            out.append(defaults[n]["value"])
        else:
            break
    return tuple(out), kw, conv

CURRENT = None
COUNT = {}
_depth = 0
_installed = False
GARBAGE = 1.0e300


def _garbage(dtype):
    if np.issubdtype(dtype, np.floating):
        return np.array(GARBAGE if dtype != np.float32 else 1e30).astype(dtype)
    if np.issubdtype(dtype, np.integer):
        return np.array(np.iinfo(dtype).max // 3, dtype=dtype)
    return np.zeros((), dtype=dtype)


def _strided(a):
    if a.ndim == 1:
        buf = np.empty(2 * len(a) + 1, dtype=a.dtype)
        buf[...] = _garbage(a.dtype)
        v = buf[1::2][:len(a)] if len(a) else buf[:0]
        v[...] = a
        return v
    if a.ndim == 2:
        buf = np.empty((a.shape[0], 2 * a.shape[1]), dtype=a.dtype)
        buf[...] = _garbage(a.dtype)
        v = buf[:, ::2]
        v[...] = a
        return v
    return a


def _one(a, form):
    if form == "strided":
        return _strided(a)
    if form == "readonly":
        b = a.copy()
        b.setflags(write=False)
        return b
    if form == "negstride":
        return a[::-1].copy()[::-1] if a.ndim == 1 else a[::-1, ::-1].copy()[::-1, ::-1]
    return a


def _is_arr(v):
    return isinstance(v, np.ndarray) and v.ndim in (1, 2) and v.dtype.kind in "fiu" and v.size > 0


def convert(args, kwargs, form, skip_first=False):
    """-> (args, kwargs, number of converted arguments)"""
    items = [("a", i, v) for i, v in enumerate(args)] + [("k", k, v) for k, v in kwargs.items()]
    if skip_first and items and items[0][0] == "a":
        items = items[1:]
    new = {}
    n = 0
    if form == "intparam":
        # a float parameter with an integral value handed in as a Python int (a bound 0 / 1, a shift 2, a scale 3)
        for where, key, v in items:
            if type(v) is float and v == int(v) and abs(v) < 2 ** 53:
                new[(where, key)] = int(v)
                n += 1
    elif form == "series":
        # array-like: a pandas Series whose integer labels are NOT the positions (a sorted / filtered frame's column)
        import pandas as pd
        for where, key, v in items:
            if _is_arr(v) and v.ndim == 1:
                new[(where, key)] = pd.Series(v.copy(), index=np.arange(len(v))[::-1] + 5)
                n += 1
    elif form == "npscalar":
        for where, key, v in items:
            if type(v) is bool:
                new[(where, key)] = np.bool_(v)
                n += 1
            elif type(v) is int:
                new[(where, key)] = np.int64(v)
                n += 1
            elif type(v) is float:
                new[(where, key)] = np.float64(v)
                n += 1
    elif form == "shared":
        groups = {}
        for where, key, v in items:
            if _is_arr(v) and v.ndim == 1:
                groups.setdefault((len(v), v.dtype.str), []).append((where, key, v))
            elif _is_arr(v):
                new[(where, key)] = _strided(v)
                n += 1
        for (ln, dt), members in groups.items():
            distinct = []          # equal content -> the same object
            for where, key, v in members:
                for j, (w0, k0, v0) in enumerate(distinct):
                    if v0.tobytes() == v.tobytes():
                        break
                else:
                    distinct.append((where, key, v))
            buf = np.empty((ln, len(distinct) + 1), dtype=np.dtype(dt))
            buf[...] = _garbage(buf.dtype)
            cols = []
            for j, (w0, k0, v0) in enumerate(distinct):
                buf[:, j] = v0
                cols.append(buf[:, j])
            for where, key, v in members:
                for j, (w0, k0, v0) in enumerate(distinct):
                    if v0.tobytes() == v.tobytes():
                        new[(where, key)] = cols[j]
                        n += 1
                        break
    else:
        for where, key, v in items:
            if _is_arr(v):
                new[(where, key)] = _one(v, form)
                n += 1
    if not new:
        return args, kwargs, 0
    args = tuple(new.get(("a", i), v) for i, v in enumerate(args))
    kwargs = {k: new.get(("k", k), v) for k, v in kwargs.items()}
    return args, kwargs, n


def _wrap(fn, is_method):
    if getattr(fn, "_tw_forms_wrapped", False):
        return fn

    @functools.wraps(fn)
    def boundary(*args, **kwargs):
        global _depth
        form = CURRENT
        if form is None or _depth or (form == "npscalar" and fn.__name__ in ("__getitem__", "__setitem__")):
            _depth += 1
            try:
                return fn(*args, **kwargs)
            finally:
                _depth -= 1
        if form in ("positional", "keyword"):
            args, kwargs, n = recall(fn, args, kwargs, form)
        else:
            args, kwargs, n = convert(args, kwargs, form, skip_first=is_method)
        if n:
            COUNT[form] = COUNT.get(form, 0) + n
        _depth += 1
        try:
            return fn(*args, **kwargs)
        finally:
            _depth -= 1
    boundary._tw_forms_wrapped = True
    boundary._tw_forms_original = fn
    return boundary


def install():
    """wrap every public function / method of the package under test (datasets excluded).  Idempotent."""
    global _installed
    if _installed:
        return
    _installed = True
    import traffic_weaver
    mods = [traffic_weaver]
    for mi in pkgutil.walk_packages(traffic_weaver.__path__, "traffic_weaver."):
        if ".datasets" in mi.name or mi.name.endswith("_version"):
            continue
        try:
            mods.append(importlib.import_module(mi.name))
        except Exception:  # noqa
            continue
    replaced = {}
    for m in mods:
        for name, obj in list(vars(m).items()):
            if inspect.isfunction(obj) and (obj.__module__ or "").startswith("traffic_weaver") and not name.startswith("__"):
                w = replaced.get(id(obj))
                if w is None:
                    w = replaced[id(obj)] = _wrap(obj, False)
                setattr(m, name, w)
            elif inspect.isclass(obj) and (obj.__module__ or "").startswith("traffic_weaver"):
                if id(obj) in replaced:
                    continue
                replaced[id(obj)] = obj
                for an, av in list(vars(obj).items()):
                    if an.startswith("__") and an not in ("__init__", "__call__", "__getitem__", "__setitem__"):
                        continue
                    if inspect.isfunction(av):
                        setattr(obj, an, _wrap(av, True))
                    elif isinstance(av, classmethod):
                        setattr(obj, an, classmethod(_wrap(av.__func__, True)))
                    elif isinstance(av, staticmethod):
                        setattr(obj, an, staticmethod(_wrap(av.__func__, False)))


def thin(n, width=3):
    if n <= width:
        return list(range(n))
    return sorted({round(k * (n - 1) / (width - 1)) for k in range(width)})


class ThinCtx:
    """a view of the execution context whose choose() offers only the first, middle and last option of every
    alphabet (a corner sub-lattice, enumerated completely)"""

    def __init__(self, ctx, width=3):
        self._ctx = ctx
        self._w = width

    def choose(self, options, label="", costs=None):
        n = options if isinstance(options, int) else len(options)
        idx = list(range(n)) if label in FULL_LABELS else thin(n, self._w)
        c = self._ctx.choose(len(idx), label, None if costs is None else [costs[i] for i in idx])
        return idx[c] if isinstance(options, int) else options[idx[c]]

    def fail(self, clause, case, detail=None, key=None):
        if isinstance(case, dict) and CURRENT is not None:
            case = dict(case, form=CURRENT)
        if CURRENT is not None:
            key = dict(key or {}, form=CURRENT)
        return self._ctx.fail(clause, case, detail, key)

    @property
    def fresh(self):
        return self._ctx.fresh

    def __getattr__(self, name):
        return getattr(self._ctx, name)


def forms_body(body, forms=FORMS, width=3):
    def fbody(ctx):
        global CURRENT
        form = ctx.choose(list(forms), "input-form")
        install()
        before = COUNT.get(form, 0)
        CURRENT = form
        try:
            body(ThinCtx(ctx, width))
        finally:
            CURRENT = None
            k = COUNT.get(form, 0) - before
            if k:
                ctx.note("arguments_converted_to_form_%s" % form, k)
    return fbody
