"""Stateless choice-tree model checker (CHESS/JPF style re-execution) + explicit-state BFS.

A *harness body* is ``body(ctx)``: one execution of the real code in which every
nondeterministic decision is taken through ``ctx.choose``.  ``explore`` enumerates ALL choice
sequences (optionally all with at most ``bound`` units of deviation cost) by re-execution:

    explore(prefix): x = run(prefix)          # replay prefix (mismatch = hard error), then option 0
                     for i >= len(prefix), alt >= 1:  explore(x.choices[:i] + [alt])

Nothing here samples.  Every count reported (executions, choice-tree nodes = states, edges =
transitions, real calls, distinct outcome signatures) is measured while exploring.
"""
import hashlib
import json
import multiprocessing as mp
import os
import sys
import time
import traceback


class ReplayDivergence(Exception):
    """A prefix could not be replayed (the body is not deterministic): harness error."""


class HarnessError(Exception):
    """The harness itself is broken (un-intercepted network access, divergence, ...)."""


def jsonable(o):
    import numpy as np
    from fractions import Fraction
    if isinstance(o, dict):
        return {str(k): jsonable(v) for k, v in o.items()}
    if isinstance(o, (list, tuple, set, frozenset)):
        return [jsonable(v) for v in o]
    if isinstance(o, np.ndarray):
        return {"__ndarray__": o.tolist(), "dtype": str(o.dtype)}
    if isinstance(o, np.generic):
        return o.item()
    if isinstance(o, Fraction):
        return {"__fraction__": [o.numerator, o.denominator]}
    if isinstance(o, float):
        if o != o or o in (float("inf"), float("-inf")):
            return repr(o)
        return o
    if isinstance(o, (int, str, bool)) or o is None:
        return o
    if isinstance(o, bytes):
        return {"__bytes__": o.hex()}
    return repr(o)


def unjson(o):
    import numpy as np
    from fractions import Fraction
    if isinstance(o, dict):
        if "__ndarray__" in o:
            return np.array(o["__ndarray__"], dtype=o["dtype"])
        if "__fraction__" in o:
            return Fraction(*o["__fraction__"])
        if "__bytes__" in o:
            return bytes.fromhex(o["__bytes__"])
        return {k: unjson(v) for k, v in o.items()}
    if isinstance(o, list):
        return [unjson(v) for v in o]
    return o


def sig_hash(sig):
    return hashlib.blake2b(repr(sig).encode(), digest_size=8).digest()


class Stats:
    """Mergeable exploration statistics."""
    MAX_VIOL = 40
    MAX_SAMPLES = 6

    def __init__(self):
        self.executions = 0        # leaves of the choice tree run (each is one run of the body)
        self.states = 0            # choice-tree nodes (incl. leaves) / canonical states (BFS)
        self.transitions = 0       # edges
        self.calls = 0             # real calls into the implementation
        self.cases = 0             # oracle-judged cases (>= executions when a leaf is vectorised)
        self.max_depth = 0
        self.outcomes = set()      # hashes of outcome signatures
        self.nontrivial = set()    # hashes of outcome signatures that are non-trivial
        self.counters = {}         # named counters (filtered_out, boundary_ambiguous, ...)
        self.viol = {}             # (clause, key-json) -> [count, [example failure dicts]]
        self.n_violations = 0
        self.samples = []
        self.caps = []
        self.lines = set()         # (file, line) of traffic_weaver executed at least once
        self.reruns = 0

    MAX_KEYS = 400
    MAX_EX = 2

    def _add_viol(self, k, cnt, exs):
        if k not in self.viol:
            if len(self.viol) >= self.MAX_KEYS:
                self.caps.append("violation-key cap %d hit" % self.MAX_KEYS) if not any("violation-key cap" in c for c in self.caps) else None
                return
            self.viol[k] = [0, []]
        e = self.viol[k]
        e[0] += cnt
        for x in exs:
            if len(e[1]) < self.MAX_EX:
                e[1].append(x)

    def add_failure(self, f):
        self.n_violations += 1
        self._add_viol(_viol_key(f), 1, [f])

    @property
    def violations(self):
        return [exs[0] for (cnt, exs) in self.viol.values() if exs]

    def merge(self, o):
        self.executions += o.executions
        self.states += o.states
        self.transitions += o.transitions
        self.calls += o.calls
        self.cases += o.cases
        self.max_depth = max(self.max_depth, o.max_depth)
        self.outcomes |= o.outcomes
        self.nontrivial |= o.nontrivial
        for k, v in o.counters.items():
            self.counters[k] = self.counters.get(k, 0) + v
        for k, (cnt, exs) in o.viol.items():
            self._add_viol(k, cnt, exs)
        self.n_violations += o.n_violations
        for s in o.samples:
            if len(self.samples) < self.MAX_SAMPLES:
                self.samples.append(s)
        for c in o.caps:
            if c not in self.caps:
                self.caps.append(c)
        self.lines |= o.lines
        self.reruns += o.reruns
        return self


def _viol_key(f):
    return (f["clause"], json.dumps(f.get("key"), sort_keys=True, default=repr))


class Ctx:
    """Execution context handed to a harness body."""

    def __init__(self, prefix, stats, bound=None):
        self.prefix = prefix
        self.stats = stats
        self.bound = bound
        self.choices = []
        self.arity = []
        self.costs = []      # per choice point: list of costs per option or None
        self.labels = []
        self.cost_used = 0
        self.failures = []
        self.cut = False

    # -- nondeterminism -----------------------------------------------------------------------
    def choose(self, options, label="", costs=None):
        n = options if isinstance(options, int) else len(options)
        if n <= 0:
            raise HarnessError("choose() with no options at %r" % (label,))
        i = len(self.choices)
        if i < len(self.prefix):
            c = self.prefix[i]
            if c >= n:
                raise ReplayDivergence("choice %d=%d out of range %d at %r" % (i, c, n, label))
        else:
            c = 0
        self.choices.append(c)
        self.arity.append(n)
        self.costs.append(costs)
        self.labels.append(label)
        if costs is not None:
            self.cost_used += costs[c]
        return c if isinstance(options, int) else options[c]

    @property
    def fresh(self):
        """True when the node reached by the choices made so far is visited for the first time in
        the whole exploration (it is not part of the replayed prefix, or is its last element)."""
        return len(self.choices) >= len(self.prefix)

    # -- accounting ---------------------------------------------------------------------------
    def call(self, k=1):
        self.stats.calls += k

    def case(self, k=1):
        self.stats.cases += k

    def bulk(self, k):
        """k leaf-level cases enumerated by an inner (vectorised) loop of this execution."""
        self.stats.cases += k
        self.stats.states += k
        self.stats.transitions += k

    def note(self, name, k=1):
        self.stats.counters[name] = self.stats.counters.get(name, 0) + k

    def outcome(self, sig, nontrivial=True):
        h = sig_hash(sig)
        self.stats.outcomes.add(h)
        if nontrivial:
            self.stats.nontrivial.add(h)

    def sample(self, case):
        if len(self.stats.samples) < Stats.MAX_SAMPLES:
            self.stats.samples.append(jsonable(case))

    def cap(self, text):
        if text not in self.stats.caps:
            self.stats.caps.append(text)

    def fail(self, clause, case, detail=None, key=None):
        """Report a violation of the property. `case` must be replayable by the check module."""
        self.failures.append({"clause": clause, "case": jsonable(case), "detail": jsonable(detail),
                              "key": jsonable(key) if key is not None else None})


def _run(body, prefix, stats, bound):
    ctx = Ctx(prefix, stats, bound)
    try:
        body(ctx)
    except (HarnessError, ReplayDivergence):
        raise
    except Exception as e:  # noqa
        # an exception escaping the body comes from the implementation under test (the harness guards its own
        # logic; a harness bug would show on the unchanged tree and be fixed there): it is a verdict, not a crash.
        # The case is the execution itself; --replay re-executes the recorded choices.
        ctx.failures.append({"clause": "raised-during-execution", "case": {"kind": "execution"},
                             "detail": jsonable({"exception": repr(e), "traceback": traceback.format_exc()[-1500:]}),
                             "key": {"exc": type(e).__name__}})
        if len(ctx.choices) < len(prefix):
            raise ReplayDivergence("execution raised %r after %d choices, prefix has %d" % (e, len(ctx.choices), len(prefix)))
        return ctx
    if len(ctx.choices) < len(prefix):
        raise ReplayDivergence("execution ended after %d choices, prefix has %d" % (len(ctx.choices), len(prefix)))
    return ctx


def explore(body, prefix=(), bound=None, stats=None, expand_only=False, audit_every=0, budget_s=None):
    """Exhaustive DFS by re-execution below `prefix`.  Returns Stats (and child prefixes if
    expand_only)."""
    stats = stats if stats is not None else Stats()
    stack = [list(prefix)]
    children_out = []
    first = True
    t_end = (time.time() + budget_s) if budget_s else None
    while stack:
        if t_end is not None and not first and time.time() > t_end:
            # budget used up: hand the unexplored prefixes back (each is a disjoint subtree)
            return stats, stack
        p = stack.pop()
        ctx = _run(body, p, stats, bound)
        new_nodes = len(ctx.choices) - len(p)
        stats.executions += 1
        stats.cases += 1
        stats.states += new_nodes + 1
        stats.transitions += new_nodes + (0 if (first and not p) else 1)
        first = False
        stats.max_depth = max(stats.max_depth, len(ctx.choices))
        if ctx.failures and all(_viol_key(f) in stats.viol and len(stats.viol[_viol_key(f)][1]) >= Stats.MAX_EX
                                for f in ctx.failures):
            # every (clause, key) of this execution already has its audited examples: only count
            for f in ctx.failures:
                stats.n_violations += 1
                stats.viol[_viol_key(f)][0] += 1
        elif ctx.failures:
            # determinism audit: a violation must reproduce identically
            s2 = Stats()
            c2 = _run(body, p, s2, bound)     # same prefix: the same nodes count as fresh
            stats.reruns += 1
            # same verdicts = same (clause, key) multiset; free-text details may name scratch paths
            if c2.choices != ctx.choices:
                raise HarnessError("execution did not replay identically for choices %r" % (ctx.choices,))
            unstable = sorted(_viol_key(f) for f in c2.failures) != sorted(_viol_key(f) for f in ctx.failures)
            if unstable:
                # The harness owns every source of nondeterminism, so a different verdict for the very same
                # execution means the library keeps hidden state between calls.  The first run's failures were
                # really observed; they are reported only if a re-execution in a FRESH process reproduces them
                # (mc/cli.py), otherwise the run ends as a harness error, never as a verdict.
                stats.counters["verdict_changed_on_immediate_rerun"] = stats.counters.get("verdict_changed_on_immediate_rerun", 0) + 1
            for f in ctx.failures:
                f = dict(f)
                f["choices"] = list(ctx.choices)
                f["labels"] = [str(l) for l in ctx.labels]
                if unstable:
                    f["needs_fresh_process_confirmation"] = True
                stats.add_failure(f)
        elif audit_every and stats.executions % audit_every == 0:
            s2 = Stats()
            c2 = _run(body, p, s2, bound)
            stats.reruns += 1
            if c2.choices != ctx.choices or c2.arity != ctx.arity:
                raise HarnessError("non-deterministic body for choices %r" % (ctx.choices,))
        # children: alternatives at every choice point at or after len(p), deepest first on the
        # stack bottom so that the simplest (earliest alt) is explored first
        kids = []
        cost_before = 0
        cum = []
        for i, c in enumerate(ctx.choices):
            cum.append(cost_before)
            if ctx.costs[i] is not None:
                cost_before += ctx.costs[i][c]
        for i in range(len(p), len(ctx.choices)):
            for alt in range(1, ctx.arity[i]):
                if bound is not None and ctx.costs[i] is not None:
                    if cum[i] + ctx.costs[i][alt] > bound:
                        continue
                elif bound is not None and cum[i] > bound:
                    continue
                kids.append(ctx.choices[:i] + [alt])
        if expand_only:
            children_out.extend(kids)
            break
        stack.extend(reversed(kids))
    if expand_only:
        return stats, children_out
    if budget_s:
        return stats, []
    return stats


# ---------------------------------------------------------------------------------------------
# line coverage of the package through sys.monitoring (self-disabling LINE events: ~zero cost)
_MON_TOOL = 3
_lines_hit = set()
_mon_on = False


def _pkg_dir():
    import traffic_weaver
    return os.path.dirname(os.path.abspath(traffic_weaver.__file__))


def start_line_monitor():
    global _mon_on
    if _mon_on or not hasattr(sys, "monitoring"):
        return
    pkg = _pkg_dir()
    mon = sys.monitoring

    def on_line(code, line):
        fn = code.co_filename
        if fn.startswith(pkg):
            _lines_hit.add((fn[len(pkg) + 1:], line))
        return mon.DISABLE

    try:
        mon.use_tool_id(_MON_TOOL, "twverif")
    except ValueError:
        return
    mon.register_callback(_MON_TOOL, mon.events.LINE, on_line)
    mon.set_events(_MON_TOOL, mon.events.LINE)
    _mon_on = True


def take_lines():
    s = set(_lines_hit)
    return s


# ---------------------------------------------------------------------------------------------
# parallel driver
_BODIES = {}
TASK_BUDGET_S = 0.25


def _worker_init():
    try:
        start_line_monitor()
    except Exception:
        pass


def _worker_task(args):
    name, prefix, bound, audit = args
    try:
        st, rest = explore(_BODIES[name], prefix, bound, audit_every=audit, budget_s=TASK_BUDGET_S)
        st.lines = take_lines()
        return ("ok", (st, rest))
    except BaseException as e:  # noqa
        return ("err", "%s\n%s" % (repr(e), traceback.format_exc()))


def n_workers():
    try:
        return max(1, min(int(os.environ.get("VERIF_WORKERS", "16")), os.cpu_count() or 1))
    except ValueError:
        return 16


def explore_parallel(name, body, bound=None, min_shards=128, audit_every=0, workers=None):
    """Expand the root breadth-first into >= min_shards prefixes, explore them on a fork pool."""
    workers = workers or n_workers()
    stats = Stats()
    _BODIES[name] = body
    start_line_monitor()
    if workers == 1:
        st = explore(body, (), bound, stats, audit_every=audit_every)
        st.lines |= take_lines()
        return st
    ctx = mp.get_context("fork")
    with ctx.Pool(workers, initializer=_worker_init) as pool:
        # dynamic load balancing: a task explores its subtree depth-first for at most TASK_BUDGET_S
        # and hands the unexplored prefixes (disjoint subtrees) back; they are re-submitted.
        import queue as _q
        done = _q.Queue()
        outstanding = 0

        def submit(prefix):
            nonlocal outstanding
            outstanding += 1
            pool.apply_async(_worker_task, ((name, prefix, bound, audit_every),), callback=done.put,
                             error_callback=lambda e: done.put(("err", repr(e))))
        submit([])
        while outstanding:
            status, res = done.get()
            outstanding -= 1
            if status == "err":
                pool.terminate()
                raise HarnessError("worker failed: " + res)
            st, rest = res
            stats.merge(st)
            for pfx in rest:
                submit(pfx)
    stats.lines |= take_lines()
    return stats


# ---------------------------------------------------------------------------------------------
# generic parallel map for harness-specific explicit-state searches
_FUNCS = {}


def _map_task(args):
    name, item = args
    try:
        return ("ok", _FUNCS[name](item))
    except BaseException as e:  # noqa
        return ("err", "%s\n%s" % (repr(e), traceback.format_exc()))


def pmap(name, fn, items, workers=None, chunksize=None):
    """Deterministic-order parallel map on a fork pool (fn must be picklable-free: looked up by
    name in the forked child)."""
    workers = workers or n_workers()
    items = list(items)
    _FUNCS[name] = fn
    if workers == 1 or len(items) <= 1:
        return [fn(it) for it in items]
    ctx = mp.get_context("fork")
    with ctx.Pool(workers, initializer=_worker_init) as pool:
        out = []
        cs = chunksize or max(1, len(items) // (workers * 8))
        for status, res in pool.imap(_map_task, [(name, it) for it in items], chunksize=cs):
            if status == "err":
                pool.terminate()
                raise HarnessError("worker failed: " + res)
            out.append(res)
    return out
