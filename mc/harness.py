"""Glue between harness bodies and plain case checkers.

A *case checker* is a plain function ``check(case) -> (failures, outcome_sig)`` that re-executes one
decoded case on the real code without any explorer; bodies call it through ``judge`` and the
``--replay`` path calls it directly, so a replay artefact is judged by exactly the same code.
"""
KINDS = {}


def kind(name):
    def deco(fn):
        KINDS[name] = fn
        fn.kind = name
        return fn
    return deco


def fail(clause, detail=None, key=None):
    return {"clause": clause, "detail": detail, "key": key}


def judge(ctx, checker, case, calls=1, nontrivial=True, bulk=False):
    case = dict(case)
    case["kind"] = checker.kind
    from mc import forms
    if forms.CURRENT is not None:
        case["form"] = forms.CURRENT
    res = checker(case)
    fails, sig = res if isinstance(res, tuple) else (res, None)
    ctx.call(calls)
    if bulk:
        ctx.bulk(1)
    for f in fails:
        k = dict(f.get("key") or {})
        if forms.CURRENT is not None:
            k["form"] = forms.CURRENT
        ctx.fail(f["clause"], case, f.get("detail"), k)
    if sig is not None:
        ctx.outcome((checker.kind, sig), nontrivial=nontrivial if not callable(nontrivial) else nontrivial(sig))
    return fails


def replay(case):
    if case.get("kind") == "execution":
        return []      # the whole execution is the case: mc/cli.py re-executes the recorded choices
    fn = KINDS[case["kind"]]
    from mc import forms
    if case.get("form"):
        forms.install()
        forms.CURRENT = case["form"]
    try:
        res = fn(case)
    finally:
        forms.CURRENT = None
    fails = res[0] if isinstance(res, tuple) else res
    return fails


def shrink(fails, **extra_key):
    """long-input cases: replace every long sequence in the free-text detail by its length, head, tail and the first
    positions where it differs from its expected counterpart; tag the verdict key"""
    def short(v):
        try:
            n = len(v)
        except TypeError:
            return v
        if isinstance(v, (str, dict)) or n <= 12:
            return v
        lst = list(v)
        try:
            return {"len": n, "head": [float(t) for t in lst[:4]], "tail": [float(t) for t in lst[-4:]]}
        except (TypeError, ValueError):
            return {"len": n}
    for f in fails:
        d = f.get("detail")
        if isinstance(d, dict):
            obs, exp = d.get("observed"), d.get("expected")
            try:
                if obs is not None and exp is not None and len(obs) == len(exp) and len(obs) > 12:
                    diff = [i for i in range(len(obs)) if float(obs[i]) != float(exp[i])][:6]
                    d["first_differences"] = [{"index": i, "observed": float(obs[i]), "expected": float(exp[i])} for i in diff]
            except (TypeError, ValueError):
                pass
            for k in list(d):
                d[k] = short(d[k])
        if extra_key:
            f["key"] = dict(f.get("key") or {}, **extra_key)
    return fails
