"""Closed environment for the remote dataset loader (DESIGN.md section 5).

* scripted network (the name `urlretrieve` inside traffic_weaver.datasets._base and urllib's own),
  virtual sleep, a tripwire on socket connect;
* step boundaries: every audited OS event below the scratch data home (open, mkdir, rename,
  remove, rmdir, scandir, rmtree, mkdtemp), every os.stat below it, every network call, and the
  two halves of every write to a file opened for writing below it;
* a baton scheduler: loader threads run only while they hold the baton and park at every step
  boundary; the driver decides who runs next, which network answer is given, and who crashes.
"""
import builtins
import gzip as _gzip
import hashlib
import io
import os
import pickle
import shutil
import socket
import sys
import tempfile
import threading
import urllib.error
import urllib.request
import warnings

import numpy as np

from mc.engine import HarnessError

PAYLOAD = b"0,1.5\n1,2.25\n2,5\n3,0.5\n"
CORRUPT = b"0,1.5\n1,2.25\n2,7\n3,0.5\n"         # same length, one byte flipped, still parses
TRUNCATED = PAYLOAD[: len(PAYLOAD) // 2]
GOOD = np.loadtxt(io.BytesIO(PAYLOAD), delimiter=",", dtype=np.float64)


def payload_bytes(kind, gz, payload=PAYLOAD):
    if kind == "good":
        raw = payload
    elif kind == "corrupt":
        raw = payload.replace(b"5\n", b"7\n", 1) if payload is not PAYLOAD else CORRUPT
    else:
        raw = payload[: len(payload) // 2]
    if gz:
        if kind == "truncated":
            full = _gzip.compress(payload, mtime=0)
            return full[: len(full) // 2]
        return _gzip.compress(raw, mtime=0)
    return raw


class Killed(BaseException):
    """raised inside a loader thread that was crashed at a step boundary (and at every later
    boundary it tries to pass, so that no clean-up code can touch the file system)."""


_tls = threading.local()
_installed = False
_real_stat = os.stat
_real_open = builtins.open
_real_sleep = None
SCRATCH_ROOTS = []


def _ctx():
    return getattr(_tls, "loader", None)


def _under_scratch(p):
    try:
        p = os.fspath(p)
    except TypeError:
        return False
    if isinstance(p, bytes):
        p = p.decode(errors="replace")
    return any(p.startswith(r) for r in SCRATCH_ROOTS)


class _WriteProxy:
    """binary file opened for writing below the scratch home.  It emulates the user-space buffer of
    a buffered file faithfully: data reach the file only when the buffer limit is exceeded, on
    flush() and on close() (CPython closes a dropped file object at once); nothing is flushed
    when the loader has been killed, exactly as after a process kill.  When data are written out
    they go in two halves with a step boundary in between, so that a torn file is observable by
    other loaders and survives a kill.  The limit is a parameter of the world (8192 = small files
    are written in one piece at close; 16 = the regime of files larger than the buffer)."""

    def __init__(self, raw, path, limit):
        self._raw = raw
        self._path = path
        self._limit = limit
        self._buf = b""
        self._closed = False

    def _drain(self):
        data, self._buf = self._buf, b""
        if not data:
            return
        lc = _ctx()
        if lc is None or len(data) < 2:
            self._raw.write(data)
            return
        h = len(data) // 2
        self._raw.write(data[:h])
        lc.boundary(("write-mid", lc.rel(self._path)))
        self._raw.write(data[h:])

    def write(self, data):
        data = bytes(data)
        self._buf += data
        if len(self._buf) >= self._limit:
            self._drain()
        return len(data)

    def flush(self):
        lc = _ctx()
        if lc is not None and lc.killed:
            return
        self._drain()

    def close(self):
        if self._closed:
            return
        self._closed = True
        lc = _ctx()
        try:
            if not (lc is not None and lc.killed):
                self._drain()
        finally:
            self._raw.close()

    def __del__(self):
        try:
            self.close()
        except BaseException:
            pass

    def __enter__(self):
        return self

    def __exit__(self, *a):
        self.close()

    def fileno(self):
        # no descriptor-level shortcuts (sendfile / copy_file_range): every byte goes through write()
        raise io.UnsupportedOperation("fileno")

    def writable(self):
        return True

    @property
    def closed(self):
        return self._closed

    @property
    def name(self):
        return self._path


def _open(file, mode="r", *a, **k):
    lc = _ctx()
    # pathlib passes (buffering=-1, encoding=None, errors=None, newline=None) positionally through io.open
    default_args = all(v in (-1, None) for v in a) and all(v in (-1, None) for v in k.values())
    if (lc is not None and isinstance(file, (str, bytes, os.PathLike)) and mode in ("wb", "bw", "xb", "ab") and default_args
            and _under_scratch(file)):
        raw = _real_open(file, mode, buffering=0)
        # the file now exists (created or truncated) but holds none of the new data yet: a step boundary
        lc.boundary(("opened-for-writing", lc.rel(file)))
        return _WriteProxy(raw, os.fspath(file), lc.world.write_buffer)
    return _real_open(file, mode, *a, **k)


def _stat(p, *a, **k):
    lc = _ctx()
    if lc is not None and _under_scratch(p):
        lc.boundary(("stat", lc.rel(p)))
        try:
            r = _real_stat(p, *a, **k)
            lc.observe(("stat", lc.rel(p), True))
            return r
        except OSError:
            lc.observe(("stat", lc.rel(p), False))
            raise
    return _real_stat(p, *a, **k)


_AUDITED = {"open", "os.mkdir", "os.rename", "os.remove", "os.rmdir", "os.scandir", "shutil.rmtree", "tempfile.mkdtemp",
            "os.listdir", "os.replace", "os.unlink", "os.link", "os.symlink", "os.truncate", "shutil.move", "shutil.copyfile"}


def _audit(ev, args):
    if ev not in _AUDITED:
        return
    lc = _ctx()
    if lc is None:
        return
    if not args:
        return
    p = args[0]
    if isinstance(p, int):
        if ev == "os.scandir":
            lc.boundary((ev, "<fd>"))
        return
    if ev in ("os.remove", "os.unlink", "os.rmdir") and len(args) > 1 and args[1] not in (None, -1):
        # fd-relative removal (shutil.rmtree of the loader's temp dir)
        lc.boundary((ev, "<fd>/" + (p.decode(errors="replace") if isinstance(p, bytes) else str(p))))
        return
    if ev == "tempfile.mkdtemp":
        lc.boundary((ev,))
        return
    if not _under_scratch(p):
        return
    extra = ()
    if ev == "open":
        extra = (str(args[1]),)
    elif ev in ("os.rename", "os.replace") and len(args) > 1:
        extra = (lc.rel(args[1]),)
    lc.boundary((ev, lc.rel(p)) + extra)


class _FakeTime:
    def __init__(self, real):
        self._real = real

    def sleep(self, s):
        lc = _ctx()
        if lc is None:
            return self._real.sleep(s)
        lc.sleeps += 1
        lc.observe(("sleep", s))

    def __getattr__(self, n):
        return getattr(self._real, n)


def _fake_urlretrieve(url, filename=None, *a, **k):
    lc = _ctx()
    if lc is None:
        raise HarnessError("network access outside a loader context: %r" % (url,))
    if lc.net_calls >= lc.world.max_net_calls:
        # horizon: a loader that keeps retrying for ever would make the execution space infinite
        lc.horizon_exceeded = True
        raise Killed()
    lc.boundary(("net", url))
    ans = lc.world.network_answer(lc, url)
    lc.net_calls += 1
    lc.urls.append(url)
    lc.observe(("net", ans))
    if ans == "URLError":
        raise urllib.error.URLError("scripted failure")
    if ans == "HTTPError":
        raise urllib.error.HTTPError(url, 503, "scripted", None, None)
    if ans == "TimeoutError":
        raise TimeoutError("scripted timeout")
    data = lc.world.payload_for(url, "good" if ans == "ContentTooShortError" else ans, lc)
    if ans == "ContentTooShortError":
        with open(filename, "wb") as f:
            f.write(data[: len(data) // 2])
        raise urllib.error.ContentTooShortError("scripted short read", None)
    with open(filename, "wb") as f:
        f.write(data)
    return filename, None


def _tripwire(self, *a, **k):
    raise HarnessError("un-intercepted network access (socket connect)")


def install():
    """process-wide, idempotent"""
    global _installed, _real_sleep
    if _installed:
        return
    import traffic_weaver.datasets._base as B
    sys.addaudithook(_audit)
    os.stat = _stat
    builtins.open = _open
    import io
    io.open = _open          # pathlib's Path.open / write_bytes go through io.open
    B.urlretrieve = _fake_urlretrieve
    urllib.request.urlretrieve = _fake_urlretrieve
    B.time = _FakeTime(B.time)
    socket.socket.connect = _tripwire
    socket.socket.connect_ex = _tripwire
    old_hook = sys.unraisablehook

    def hook(u):
        if isinstance(u.exc_value, Killed):
            return
        old_hook(u)
    sys.unraisablehook = hook
    old_thook = threading.excepthook

    def thook(a):
        if issubclass(a.exc_type, Killed):
            return
        old_thook(a)
    threading.excepthook = thook
    warnings.filterwarnings("ignore", category=ResourceWarning)
    warnings.filterwarnings("ignore", message="Retry downloading")
    _installed = True


class Loader:
    """per-thread context of one loader"""

    def __init__(self, world, tid, call):
        self.world = world
        self.tid = tid
        self.call = call
        self.go = threading.Semaphore(0)
        self.log = []            # (label) of boundaries passed and observations made
        self.pending = None      # label of the boundary it is parked at
        self.done = False
        self.killed = False
        self.result = None
        self.net_calls = 0
        self.sleeps = 0
        self.urls = []
        self.steps = 0
        self.thread = None
        self.tmpnames = {}
        self.horizon_exceeded = False

    def rel(self, p):
        """path below the data home with this loader's random temp names replaced by tmp#k"""
        p = os.fspath(p)
        if isinstance(p, bytes):
            p = p.decode(errors="replace")
        home = self.world.home
        if p.startswith(home):
            p = p[len(home):]
        parts = []
        for part in p.split(os.sep):
            if part.startswith("tmp") and len(part) >= 8:
                part = self.tmpnames.setdefault(part, "tmp#%d" % len(self.tmpnames))
            parts.append(part)
        return "/".join(parts)

    def observe(self, item):
        self.log.append(item)

    def boundary(self, label):
        if self.killed:
            raise Killed()
        if getattr(_tls, "inhook", False):
            return
        _tls.inhook = True
        try:
            self.pending = label
            self.world.back.release()
            self.go.acquire()
            self.pending = None
            self.steps += 1
            self.log.append(label)
        finally:
            _tls.inhook = False
        if self.killed:
            raise Killed()

    def main(self):
        _tls.loader = self
        try:
            self.boundary(("start",))
            try:
                self.result = ("ok", self.call())
            except Killed:
                self.result = ("killed",)
            except BaseException as e:  # noqa
                self.result = ("exc", type(e).__name__, str(e)[:120])
        except Killed:
            self.result = ("killed",)
        finally:
            _tls.loader = None
            self.done = True
            self.world.back.release()


class World:
    """N loaders over one scratch data home."""

    def __init__(self, calls, home, answer_fn=None, payloads=None, write_buffer=8192):
        install()
        self.home = home
        self.write_buffer = write_buffer
        self.max_net_calls = 12
        if not any(home.startswith(r) for r in SCRATCH_ROOTS):
            SCRATCH_ROOTS.append(home)
        self.back = threading.Semaphore(0)
        self.answer_fn = answer_fn or (lambda lc, url: "good")
        self.payloads = payloads
        self.loaders = [Loader(self, i, c) for i, c in enumerate(calls)]
        for lc in self.loaders:
            lc.thread = threading.Thread(target=lc.main, daemon=True)
            lc.thread.start()
            self.back.acquire()          # parked at ("start",)

    # -- callbacks from loader threads --------------------------------------------------------------
    def network_answer(self, lc, url):
        return self.answer_fn(lc, url)

    def payload_for(self, url, kind, lc):
        if self.payloads is not None:
            entry = self.payloads[url]
            if isinstance(entry, dict):          # the bytes served for each answer kind, spelled out
                return entry[kind]
            raw, gz = entry
            return payload_bytes(kind, gz, raw)
        return payload_bytes(kind, getattr(lc, "gzip", False))

    # -- driver side --------------------------------------------------------------------------------
    def enabled(self):
        return [lc.tid for lc in self.loaders if not lc.done and not lc.killed]

    def pending(self, tid):
        return self.loaders[tid].pending

    def step(self, tid, crash=False):
        """let loader tid pass the boundary it is parked at and run to its next boundary (or end)"""
        lc = self.loaders[tid]
        if lc.done or lc.killed:
            raise HarnessError("step on a finished loader")
        if crash:
            lc.killed = True
        lc.go.release()
        self.back.acquire()
        if crash:
            # the thread unwinds raising Killed at every boundary; wait for it to finish
            while not lc.done:
                lc.go.release()
                self.back.acquire()

    def run_to_end(self, tid):
        lc = self.loaders[tid]
        while not lc.done:
            self.step(tid)

    def all_done(self):
        return all(lc.done for lc in self.loaders)

    def close(self):
        for lc in self.loaders:
            if not lc.done:
                lc.killed = True
                while not lc.done:
                    lc.go.release()
                    self.back.acquire()
        for lc in self.loaders:
            lc.thread.join(timeout=5)

    # -- observation ------------------------------------------------------------------------------
    def snapshot(self):
        """canonical content of the data home: sorted (path, kind, digest); temp dir names are
        canonicalised by content so that equal states compare equal"""
        items = []
        for dirpath, dirs, files in os.walk(self.home):
            dirs.sort()
            rel = dirpath[len(self.home):]
            for d in dirs:
                items.append((os.path.join(rel, d), "dir", ""))
            for f in sorted(files):
                with _real_open(os.path.join(dirpath, f), "rb") as fh:
                    items.append((os.path.join(rel, f), "file", hashlib.sha256(fh.read()).hexdigest()[:12]))
        # canonicalise random temp names: group by temp dir, name by sorted content
        tmp = {}
        for (p, k, d) in items:
            parts = p.split(os.sep)
            for i, part in enumerate(parts):
                if part.startswith("tmp") and len(part) >= 8:
                    tmp.setdefault(part, []).append(("/".join(parts[i + 1:]), k, d))
        order = {name: "tmp@%d" % i for i, (name, _) in enumerate(sorted(tmp.items(), key=lambda kv: sorted(kv[1])))}
        out = []
        for (p, k, d) in items:
            parts = [order.get(part, part) for part in p.split(os.sep)]
            out.append(("/".join(parts), k, d))
        return tuple(sorted(out))


def slot_state(path, good=GOOD):
    """'absent' | 'good' | ('corrupt', why)"""
    if not os.path.exists(path):
        return "absent"
    try:
        with _real_open(path, "rb") as f:
            d = pickle.load(f)
    except Exception as e:  # noqa
        return ("corrupt", type(e).__name__)
    if isinstance(d, np.ndarray) and d.shape == good.shape and np.array_equal(d, good):
        return "good"
    return ("corrupt", "other-data")


def make_scratch():
    base = "/dev/shm" if os.path.isdir("/dev/shm") and os.access("/dev/shm", os.W_OK) else tempfile.gettempdir()
    # the run id (pid of the ./check process) lets that process remove what its pool workers leave behind: workers are
    # terminated without running atexit handlers
    d = tempfile.mkdtemp(prefix="twverif-%s-" % os.environ.get("TW_VERIF_RUN_ID", "x"), dir=base)
    SCRATCH_ROOTS.append(d)
    return d


def remove_run_scratch():
    import glob
    rid = os.environ.get("TW_VERIF_RUN_ID")
    if not rid:
        return
    base = "/dev/shm" if os.path.isdir("/dev/shm") and os.access("/dev/shm", os.W_OK) else tempfile.gettempdir()
    for d in glob.glob(os.path.join(base, "twverif-%s-*" % rid)):
        shutil.rmtree(d, ignore_errors=True)


def remove_scratch(d):
    shutil.rmtree(d, ignore_errors=True)
    if d in SCRATCH_ROOTS:
        SCRATCH_ROOTS.remove(d)
