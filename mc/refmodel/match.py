"""Reference model of integral matching, written from the property statements (C01, C03) and
the function docstring.  Never imports traffic_weaver.  Exact rational arithmetic except for
non-integer stretch exponents."""
from fractions import Fraction as F

from . import search as S


def fr(v):
    return v if isinstance(v, F) else F(v)


def fixed_selection(x, xr, mode, strategy="closest", fixed=None):
    """Which samples of x are fixed, and which reference points they correspond to.

    Returns ("ok", fidx, ridx) | ("inadmissible", reason) | ("ambiguous", reason).
    fidx: strictly increasing sample indices; ridx: strictly increasing reference indices of the
    same length; fixed interval i corresponds to the reference span ridx[i]..ridx[i+1]."""
    x = list(x)
    xr = list(xr)
    if mode == "search":
        idx = []
        for r in xr:
            if strategy == "lower":
                idx.append(S.lower(x, r, True))
            elif strategy == "higher":
                idx.append(S.higher(x, r, True))
            else:
                i, alt = S.closest(x, r)
                if alt is not None:
                    return ("ambiguous", "closest tie within 4 ulp")
                idx.append(i)
        if len(set(idx)) < len(idx):
            return ("inadmissible", "selected fixed points not distinct")
        fidx = idx
        ridx = list(range(len(xr)))
    else:
        if mode == "values":
            vals = sorted(set(fixed))
            if any(v not in x for v in vals):
                return ("inadmissible", "fixed value not a sample")
            fidx = [x.index(v) for v in vals]
        else:
            fidx = sorted(set(fixed))
            if any(i < 0 or i >= len(x) for i in fidx):
                return ("inadmissible", "fixed index out of range")
            vals = [x[i] for i in fidx]
        r = []
        for v in vals:
            i, alt = S.closest(xr, v)
            if alt is not None:
                return ("ambiguous", "closest tie within 4 ulp")
            r.append(i)
        if len(set(r)) < len(r):
            return ("inadmissible", "mapped reference positions not distinct")
        ridx = r
    if len(fidx) < 2:
        return ("inadmissible", "fewer than two fixed points")
    if any(b - a < 2 for a, b in zip(fidx[:-1], fidx[1:])):
        return ("inadmissible", "an interval without interior sample")
    return ("ok", fidx, ridx)


def rule_integrals(x, y, rule):
    x = [fr(v) for v in x]
    y = [fr(v) for v in y]
    if rule == "rectangle":
        return [y[i] * (x[i + 1] - x[i]) for i in range(len(x) - 1)]
    if rule == "trapezoid":
        return [(y[i] + y[i + 1]) / 2 * (x[i + 1] - x[i]) for i in range(len(x) - 1)]
    raise KeyError(rule)


def reference_targets(xr, yr, rule, ridx):
    ints = rule_integrals(xr, yr, rule)
    return [sum(ints[a:b], F(0)) for a, b in zip(ridx[:-1], ridx[1:])]


def span_integral(x, z, rule, a, b):
    """integral of (x, z) from sample a to sample b (inclusive end points) under `rule`."""
    return sum(rule_integrals(x[a:b + 1], z[a:b + 1], rule), F(0))


def weights(xw, alpha):
    """documented profile w_i = 1 - (2|x - centre| / width)^alpha on one closed window."""
    xw = [fr(v) for v in xw]
    c = (xw[0] + xw[-1]) / 2
    width = xw[-1] - xw[0]
    out = []
    for v in xw:
        t = 2 * abs(c - v) / width
        if isinstance(alpha, int):
            out.append(1 - t ** alpha)
        else:
            out.append(F(1) - F(float(t) ** float(alpha)))
    return out


def stretch_window(xw, yw, target, rule, alpha):
    """exact image of one closed window (>= 3 samples): y + lambda * w with the window integral == target"""
    xw = [fr(v) for v in xw]
    yw = [fr(v) for v in yw]
    w = weights(xw, alpha)
    cur = sum(rule_integrals(xw, yw, rule), F(0))
    k = sum(rule_integrals(xw, w, rule), F(0))
    lam = (fr(target) - cur) / k
    return [a + lam * b for a, b in zip(yw, w)]


def match(x, y, fidx, targets, rule, alpha):
    z = [fr(v) for v in y]
    for (a, b), t in zip(zip(fidx[:-1], fidx[1:]), targets):
        z[a:b + 1] = stretch_window(x[a:b + 1], z[a:b + 1], t, rule, alpha)
    return z
