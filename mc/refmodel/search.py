"""Reference model of the nearest-sample searches: the definition, via bisect, exact."""
import bisect
from fractions import Fraction as F


def lower(x, q, fill=True):
    i = bisect.bisect_right(x, q) - 1
    if i < 0:
        return 0 if fill else -1
    return i


def higher(x, q, fill=True):
    i = bisect.bisect_left(x, q)
    if i == len(x):
        return len(x) - 1 if fill else len(x)
    return i


def closest(x, q):
    """nearest element by exact distance, ties to the lower one; returns (index, alt).

    alt is a second admissible index or None: an implementation that subtracts in IEEE arithmetic
    compares the two correctly rounded distances fl(q - lo) and fl(hi - q); where that comparison
    disagrees with the exact one (only possible when the exact distances differ by less than the
    rounding of the subtractions) its answer is accepted as well.  Nothing else is."""
    i = bisect.bisect_left(x, q)
    if i == 0:
        return 0, None
    if i == len(x):
        return len(x) - 1, None
    lo, hi = x[i - 1], x[i]
    dl = F(q) - F(lo)
    dh = F(hi) - F(q)
    idx = i - 1 if dl <= dh else i
    fidx = i - 1 if (float(q) - float(lo)) <= (float(hi) - float(q)) else i
    return idx, (fidx if fidx != idx else None)
