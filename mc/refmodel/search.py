"""Reference model of the nearest-sample searches: the definition, via bisect, exact."""
import bisect
from fractions import Fraction as F


def lower(x, q, fill=True):
    i = bisect.bisect_right(x, q) - 1
    if i < 0:
        return 0 if fill else -1
    return i


def higher(x, q, fill=True):
    i = bisect.bisect_left(x, q)
    if i == len(x):
        return len(x) - 1 if fill else len(x)
    return i


def closest(x, q):
    """nearest element, ties to the lower one; returns (index, alt) where alt is a second
    admissible index when the two exact distances differ by less than 4 ulp of the operands
    (the implementation subtracts in floating point) or None."""
    i = bisect.bisect_left(x, q)
    if i == 0:
        return 0, None
    if i == len(x):
        return len(x) - 1, None
    lo, hi = x[i - 1], x[i]
    dl = F(q) - F(lo)
    dh = F(hi) - F(q)
    idx = i - 1 if dl <= dh else i
    alt = None
    if dl != dh:
        import math
        u = 4 * max(math.ulp(float(abs(hi))), math.ulp(float(abs(lo))), math.ulp(float(abs(q))))
        if abs(dl - dh) < F(u):
            alt = i if idx == i - 1 else i - 1
    return idx, alt
