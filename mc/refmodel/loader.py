"""Reference model of the remote loader's retry / checksum / cache semantics (from the docstrings
of load_csv_dataset_from_remote and _fetch_remote and the statement of C19).  Never imports
traffic_weaver."""

FAILURES = ("URLError", "HTTPError", "TimeoutError", "ContentTooShortError")
PAYLOADS = ("good", "corrupt", "truncated")
# exception class names that satisfy "the caught error is re-raised"
RAISES = {"URLError": "URLError", "HTTPError": "HTTPError", "TimeoutError": "TimeoutError",
          "ContentTooShortError": "ContentTooShortError"}


def predict(cached, download_if_missing, download_even_if_available, n_retries, answers):
    """answers: network answers in the order they would be consumed.
    Returns dict(outcome='data'|exception-name, net_calls, sleeps, cache='absent'|'good', consumed)."""
    res = {"net_calls": 0, "sleeps": 0, "cache": "good" if cached else "absent"}
    wants = (download_if_missing and not cached) or (download_if_missing and download_even_if_available and cached)
    if not wants:
        if not cached:
            res["outcome"] = "OSError"
        else:
            res["outcome"] = "data"
        return res
    left = n_retries
    for a in answers:
        res["net_calls"] += 1
        if a in FAILURES:
            if left == 0:
                res["outcome"] = RAISES[a]
                return res
            left -= 1
            res["sleeps"] += 1
            continue
        if a != "good":
            res["outcome"] = "OSError"      # checksum mismatch: never returned, never cached
            return res
        res["outcome"] = "data"
        res["cache"] = "good"
        return res
    res["outcome"] = "script-exhausted"
    return res
