"""Reference model of the four transition-window recreate-from-average strategies, written from
the class docstrings of LinearFixedRFA / LinearAdaptiveRFA / ExpFixedRFA / ExpAdaptiveRFA and
the closed forms documented in funfit.  Never imports traffic_weaver.  Exact rational
arithmetic for integer exponents; floats only for non-integer powers."""
import math
from fractions import Fraction as F


# ---- documented closed forms of the five elementary shape functions ------------------------
def powf(t, e):
    if isinstance(e, int):
        return t ** e
    if isinstance(e, F) and e.denominator == 1:
        return t ** int(e)
    return F(float(t) ** float(e)) if isinstance(t, F) else float(t) ** float(e)


def lin(x, p0, p1):
    (x0, y0), (x1, y1) = p0, p1
    return y0 + (y1 - y0) * (x - x0) / (x1 - x0)


def exp_(x, p0, p1, e):
    (x0, y0), (x1, y1) = p0, p1
    return y0 + (y1 - y0) * powf((x - x0) / (x1 - x0), e)


def exp_xy(x, p0, p1, e):
    (x0, y0), (x1, y1) = p0, p1
    return y0 + (y1 - y0) * (1 - powf((x1 - x) / (x1 - x0), e))


def exp_lin(x, p0, p1, e):
    """t*lin + (1-t)*exp  (exponential near the start, linear near the end)"""
    (x0, y0), (x1, y1) = p0, p1
    t = (x - x0) / (x1 - x0)
    return lin(x, p0, p1) * t + exp_(x, p0, p1, e) * (1 - t)


def lin_exp_xy(x, p0, p1, e):
    """t*exp_xy + (1-t)*lin  (linear near the start, mirrored power near the end)"""
    (x0, y0), (x1, y1) = p0, p1
    t = (x - x0) / (x1 - x0)
    return exp_xy(x, p0, p1, e) * t + lin(x, p0, p1) * (1 - t)


# ---- windows -------------------------------------------------------------------------------
def effective_a(n, alpha=None, a=None):
    """a = int(alpha*n) or int(a), never below 2 (docstring: 'cannot be lower than 2')."""
    v = F(alpha) * n if a is None else F(a)
    v = math.floor(v)
    return max(2, v)


def adaptive_windows(Y, a, smooth=1):
    """Per real interval k=0..m-2 (average Y[k]): (a_l, a_r, amb_l, amb_r).

    Docstring cases: both jumps zero -> (0, 0); only the left jump non-zero (nothing changes on
    the right) -> (a/2, 0); only the right jump non-zero -> (0, a/2); otherwise
    gamma = |right jump| / |left jump| (** smooth), a_l = gamma*a/(1+gamma), a_r = a/(1+gamma),
    clipped to [1, a] and truncated.  amb_* is True when the untruncated value is within 1e-9 of
    an integer >= 2 (the implementation may truncate either way there)."""
    m = len(Y)
    out = []
    for k in range(m - 1):
        left = abs(F(Y[k]) - F(Y[max(k - 1, 0)]))
        right = abs(F(Y[k + 1]) - F(Y[k]))
        if left == 0 and right == 0:
            out.append((0, 0, False, False))
        elif right == 0:
            out.append((a // 2, 0, False, False))
        elif left == 0:
            out.append((0, a // 2, False, False))
        else:
            g = right / left
            if smooth != 1:
                g = float(g) ** float(smooth)
            lval = g * a / (1 + g)
            rval = a / (1 + g)
            res = []
            for v in (lval, rval):
                v = min(max(v, 1), a)
                j = math.floor(v)
                amb = False
                if j >= 2 and abs(float(v) - j) <= 1e-9 * max(1.0, j):
                    amb = True       # exact (or nearly exact) integer: j or j-1
                elif abs(float(v) - (j + 1)) <= 1e-9 * max(1.0, j + 1) and j + 1 >= 2:
                    amb = True       # just below an integer in exact arithmetic: j or j+1
                    j = j + 1
                res.append((j, amb))
            out.append((res[0][0], res[1][0], res[0][1], res[1][1]))
    return out


def recreate(X, Y, n, strategy, a, beta=F(1, 2), e=2, smooth=1, windows=None, exact=True):
    """X, Y: m original points (Fractions).  Returns (values, windows) where values is the list of
    (m-1)*n+1 recreated values.  strategy in linfix, linada, expfix, expada.
    `windows` optionally overrides the per-interval (a_l, a_r) of the real intervals."""
    m = len(X)
    Yx = [F(v) for v in Y]          # windows are always computed exactly
    if exact:
        X = [F(v) for v in X]
        Y = [F(v) for v in Y]
        frac = F
    else:                            # sample values in floats (compared to 1e-9 anyway)
        X = [float(v) for v in X]
        Y = [float(v) for v in Y]
        e = float(e) if not isinstance(e, int) else e

        def frac(i, n_):
            return i / n_
    fixed = strategy in ("linfix", "expfix")
    isexp = strategy.startswith("exp")

    def avg(k):
        return Y[min(max(k, 0), m - 1)]

    def xs(k, i):
        # sample i of interval k; k = -1 and k = m-1 are the virtual intervals mirrored from the
        # first / last real interval (only their geometry next to the border is ever used)
        if k < 0:
            w = X[1] - X[0]
            return X[0] + k * w + frac(i, n) * w
        if k >= m - 1:
            w = X[m - 1] - X[m - 2]
            return X[m - 1] + (k - (m - 1)) * w + frac(i, n) * w
        return X[k] + frac(i, n) * (X[k + 1] - X[k])

    AL, AR = {}, {}
    if fixed:
        for k in range(-1, m):
            AL[k] = AR[k] = a // 2
    else:
        win = windows if windows is not None else [(w[0], w[1]) for w in adaptive_windows(Yx, a, smooth)]
        AL[-1] = AR[-1] = 1
        AL[m - 1] = AR[m - 1] = 1
        for k in range(m - 1):
            AL[k], AR[k] = win[k]

    def border(k):
        """value at X[k], between interval k-1 and interval k: linear interpolation, at the border,
        between the plateau end of k-1 and the plateau start of k"""
        if AR[k - 1] == 0 and AL[k] == 0:
            return avg(k - 1)
        return lin(xs(k, 0), (xs(k - 1, n - AR[k - 1]), avg(k - 1)), (xs(k, AL[k]), avg(k)))

    out = []
    for k in range(m - 1):
        y0 = avg(k)
        al, ar = AL[k], AR[k]
        z0, z1 = border(k), border(k + 1)
        if isexp:
            bl = math.floor(F(beta) * al)
            br = math.floor(F(beta) * ar)
            zlb = lin(xs(k, bl), (xs(k, 0), z0), (xs(k, al), y0)) if (al > 0 and bl > 0) else z0
            zrb = lin(xs(k, n - br), (xs(k, n - ar), y0), (xs(k, n), z1)) if (ar > 0 and br > 0) else z1
        for i in range(n):
            x = xs(k, i)
            if i < al:
                if not isexp:
                    v = lin(x, (xs(k, 0), z0), (xs(k, al), y0))
                elif i < bl:
                    v = lin(x, (xs(k, 0), z0), (xs(k, bl), zlb))
                else:
                    v = lin_exp_xy(x, (xs(k, bl), zlb), (xs(k, al), y0), e)
            elif i > n - ar:
                if not isexp:
                    v = lin(x, (xs(k, n - ar), y0), (xs(k, n), z1))
                elif i < n - br:
                    v = exp_lin(x, (xs(k, n - ar), y0), (xs(k, n - br), zrb), e)
                else:
                    v = lin(x, (xs(k, n - br), zrb), (xs(k, n), z1))
            else:
                v = y0
            out.append(v)
    out.append(border(m - 1) if not isexp else Y[m - 1])
    return out, [(AL[k], AR[k]) for k in range(m - 1)]
