"""Functional reference model of the Weaver's three series (working / reference / original) under
the ten domain operations, in exact rational arithmetic.  Never imports traffic_weaver.
Reshaping operations are not modelled: they set `reshaped` and the working pair is replaced by
what was observed (their values are judged by C01-C07, C13-C16)."""
from fractions import Fraction as F


def _fr(seq):
    # NaN (a missing sample) is carried as a float NaN; every finite value is exact
    return [float("nan") if (isinstance(v, float) and v != v) else F(v) for v in seq]


class WeaverModel:
    def __init__(self, x, y):
        if x is None:
            x = list(range(len(y)))
        self.w = [_fr(x), _fr(y)]
        self.ref = [_fr(x), _fr(y)]
        self.orig = [_fr(x), _fr(y)]
        self.reshaped = False
        # running bound on the absolute rounding error an IEEE implementation may have accumulated in each axis of
        # the working / reference series (conditioning: a shift to a large magnitude followed by a normalisation
        # keeps the large magnitude's ulp as an absolute error)
        self.err = [0.0, 0.0]

    def _bump(self, axis, factor=1.0):
        import math
        vals = [abs(float(v)) for p in (self.w, self.ref) for v in p[axis] if v == v]
        self.err[axis] = self.err[axis] * factor + 2 * math.ulp(max(vals + [1e-300]))

    def copy(self):
        m = WeaverModel.__new__(WeaverModel)
        m.w = [list(self.w[0]), list(self.w[1])]
        m.ref = [list(self.ref[0]), list(self.ref[1])]
        m.orig = [list(self.orig[0]), list(self.orig[1])]
        m.reshaped = self.reshaped
        m.err = list(self.err)
        return m

    # --- helpers ---------------------------------------------------------------------------
    @staticmethod
    def _truncate(x, y, left, right, lr, rr):
        span = x[-1] - x[0]
        lo_b = F(left) * span + x[0] if lr else F(left)
        hi_b = F(right) * span + x[0] if rr else F(right)
        le = [i for i, v in enumerate(x) if v <= lo_b]
        ge = [i for i, v in enumerate(x) if v >= hi_b]
        lo = le[-1] if le else 0
        hi = ge[0] if ge else len(x) - 1
        return x[lo:hi + 1], y[lo:hi + 1]

    @staticmethod
    def truncate_margin(x, left, right, lr, rr):
        """smallest relative distance of a bound to a sample (0 = a bound sits on a sample)"""
        span = x[-1] - x[0]
        lo_b = F(left) * span + x[0] if lr else F(left)
        hi_b = F(right) * span + x[0] if rr else F(right)
        if lo_b >= hi_b:
            return None
        d = min(min(abs(v - lo_b), abs(v - hi_b)) for v in x)
        return d / span

    @staticmethod
    def _repeat(x, y, r):
        period = (x[-1] - x[0]) + (x[-1] - x[-2])
        return [v + c * period for c in range(r) for v in x], list(y) * r

    @staticmethod
    def _normalize(a, lo, hi):
        if any(v != v for v in a):
            return [float("nan")] * len(a)        # min / max of a series with a missing sample are undefined
        mn, mx = min(a), max(a)
        return [(v - mn) / (mx - mn) * (F(hi) - F(lo)) + F(lo) for v in a]

    def _pairs(self, include_orig=False):
        return [self.w, self.ref] + ([self.orig] if include_orig else [])

    # --- the ten domain operations -----------------------------------------------------------
    def append(self, periodic):
        for p in self._pairs():
            p[0] = p[0] + [2 * p[0][-1] - p[0][-2]]
            p[1] = p[1] + [p[1][0] if periodic else p[1][-1]]
        self._bump(0, 3.0)

    def shift_x(self, s):
        for p in self._pairs():
            p[0] = [v + F(s) for v in p[0]]
        self._bump(0)

    def shift_y(self, s):
        for p in self._pairs():
            p[1] = [v + F(s) for v in p[1]]
        self._bump(1)

    def scale_x(self, c):
        for p in self._pairs():
            p[0] = [v * F(c) for v in p[0]]
        self._bump(0, abs(float(c)))

    def scale_y(self, c):
        for p in self._pairs():
            p[1] = [v * F(c) for v in p[1]]
        self._bump(1, abs(float(c)))

    def _norm_factor(self, axis, lo, hi):
        f = 1.0
        for p in (self.w, self.ref):
            a = [v for v in p[axis] if v == v]
            if a and max(a) > min(a):
                f = max(f, 3.0 * abs(float(hi) - float(lo)) / float(max(a) - min(a)) * max(1.0, 1.0))
        return f

    def normalize_x(self, lo, hi):
        f = self._norm_factor(0, lo, hi)
        for p in self._pairs(include_orig=True):
            p[0] = self._normalize(p[0], lo, hi)
        self._bump(0, f)

    def normalize_y(self, lo, hi):
        f = self._norm_factor(1, lo, hi)
        for p in self._pairs(include_orig=True):
            p[1] = self._normalize(p[1], lo, hi)
        self._bump(1, f)

    def repeat(self, r):
        for p in self._pairs():
            p[0], p[1] = self._repeat(p[0], p[1], r)
        self._bump(0, 3.0 * r)

    def truncate_by_value(self, left, right, lr=False, rr=False):
        for p in self._pairs():
            p[0], p[1] = self._truncate(p[0], p[1], left, right, lr, rr)

    def truncate_by_index(self, start, stop):
        for p in self._pairs():
            p[0], p[1] = p[0][start:stop], p[1][start:stop]

    # --- reshaping: adopt what was observed ------------------------------------------------
    def reshape_to(self, x, y):
        self.reshaped = True
        self.w = [_fr(x), _fr(y)]
        self.err = [self.err[0], 0.0]

    def restore_original(self):
        """after restore_original the object behaves like a new one on get_original()"""
        self.w = [list(self.orig[0]), list(self.orig[1])]
        self.ref = [list(self.orig[0]), list(self.orig[1])]
        self.reshaped = False
        self.err = [0.0, 0.0]
