"""setup_cmd: verifies offline that everything the checks need is importable and the engine
enumerates a known tree exactly (a broken engine must fail here, not report silence)."""
import sys

from mc import engine


def main():
    import numpy, scipy  # noqa
    import traffic_weaver  # noqa

    def body(ctx):
        a = ctx.choose(3, "a")
        b = ctx.choose(2 if a else 4, "b")
        ctx.outcome((a, b))
    st = engine.explore(body)
    assert st.executions == 4 + 2 + 2, st.executions
    assert len(st.outcomes) == 8
    st = engine.explore_parallel("selftest", body, min_shards=4, workers=2)
    assert st.executions == 8 and len(st.outcomes) == 8, (st.executions, len(st.outcomes))

    def body2(ctx):
        xs = [ctx.choose(2, "f%d" % i, costs=[0, 1]) for i in range(4)]
        ctx.outcome(tuple(xs))
    st = engine.explore(body2, bound=1)
    assert st.executions == 5, st.executions
    st = engine.explore(body2, bound=2)
    assert st.executions == 11, st.executions
    print("selftest ok: numpy %s scipy %s traffic_weaver from %s" % (numpy.__version__, scipy.__version__,
                                                                      traffic_weaver.__file__))


if __name__ == "__main__":
    sys.exit(main())
