"""check <ID> [--tier quick|thorough] [--replay path]   (cwd-independent; see DESIGN.md 2.1)

exit 0  property held on everything explored (KNOWN-FINDING lines allowed)
exit 1  + "VIOLATION property=<id> replay=<path>" for each unlisted violation
exit 2  the harness itself failed (never a verdict)
"""
import argparse
import hashlib
import importlib
import json
import os
import sys
import time
import traceback

import mc
from mc import engine

ROOT = mc.VERIF_ROOT


def load_known():
    p = os.path.join(ROOT, "known_findings.json")
    if not os.path.exists(p):
        return []
    with open(p) as f:
        d = json.load(f)
    return [k for k in d.get("findings", []) if k.get("status") == "known"]


def _get(d, dotted):
    cur = d
    for part in dotted.split("."):
        if not isinstance(cur, dict) or part not in cur:
            return None
        cur = cur[part]
    return cur


def match_known(prop, viol, known):
    for k in known:
        if k["property"] != prop:
            continue
        ok = True
        for field, want in k["match"].items():
            got = _get(viol, field)
            if isinstance(want, list):
                if got not in want:
                    ok = False
            elif got != want:
                ok = False
            if not ok:
                break
        if ok:
            return k
    return None


def source_fingerprint():
    import traffic_weaver
    base = os.path.dirname(traffic_weaver.__file__)
    h = hashlib.sha256()
    for dirpath, _, files in sorted(os.walk(base)):
        for fn in sorted(files):
            if fn.endswith(".py"):
                with open(os.path.join(dirpath, fn), "rb") as f:
                    h.update(fn.encode())
                    h.update(f.read())
    return h.hexdigest()[:16], base


def write_replay(prop, harness, viol, tier="quick", seed=0):
    os.makedirs(os.path.join(ROOT, "replays"), exist_ok=True)
    body = {"property": prop, "harness": harness, "clause": viol["clause"], "key": viol.get("key"),
            "case": viol["case"], "detail": viol.get("detail"), "choices": viol.get("choices"),
            "labels": viol.get("labels"), "tier": tier, "seed": seed,
            "needs_fresh_process_confirmation": bool(viol.get("needs_fresh_process_confirmation"))}
    blob = json.dumps(body, sort_keys=True, default=repr)
    hsh = hashlib.sha256(blob.encode()).hexdigest()[:12]
    path = os.path.join(ROOT, "replays", "%s-%s.json" % (prop, hsh))
    body["source_fingerprint"] = source_fingerprint()[0]
    with open(path, "w") as f:
        json.dump(body, f, indent=1, sort_keys=True, default=repr)
    return path


PINNED_COMMIT = "cb4fb7e"


def _line_map(relpath, cur_path):
    """pinned line number -> current line number (properties.jsonl anchors refer to the pinned
    commit; fix commits and mutants shift lines).  Identity if git is unavailable."""
    import difflib
    import subprocess
    try:
        old = subprocess.run(["git", "-C", "/repo", "show", "%s:src/traffic_weaver/%s" % (PINNED_COMMIT, relpath)],
                             capture_output=True, text=True, timeout=20)
        if old.returncode != 0:
            return None
        a = old.stdout.splitlines()
        with open(cur_path) as f:
            b = f.read().splitlines()
    except Exception:
        return None
    m = {}
    for tag, i1, i2, j1, j2 in difflib.SequenceMatcher(None, a, b, autojunk=False).get_opcodes():
        if tag == "equal":
            for k in range(i2 - i1):
                m[i1 + k + 1] = j1 + k + 1
    return m


def anchor_report(mod, lines):
    """How many of the property's anchored mechanism lines (pinned numbering, mapped to the
    current file) were executed at least once."""
    out = {}
    anchors = getattr(mod, "ANCHORS", {})
    if not anchors:
        return out
    import traffic_weaver
    base = os.path.dirname(traffic_weaver.__file__)
    by_file = {}
    for fn, ln in lines:
        by_file.setdefault(fn, set()).add(ln)
    for fn, ranges in anchors.items():
        hit = by_file.get(fn, set())
        lm = _line_map(fn, os.path.join(base, fn))
        for (a, b) in ranges:
            if lm is None:
                cur = set(range(a, b + 1))
            else:
                cur = {lm[l] for l in range(a, b + 1) if l in lm}
            out["%s:%d-%d" % (fn, a, b)] = len(hit & cur)
    return out


def all_harnesses(mod, tier, seed):
    """the module's harnesses + one 'input-forms' harness per selected body harness (mc/forms.py)"""
    from mc import forms
    hs = list(mod.harnesses(tier, seed))
    sel = getattr(mod, "FORMS_HARNESSES", None)
    if sel is None or os.environ.get("TW_VERIF_NO_FORMS"):
        return hs
    only = os.environ.get("TW_VERIF_ONLY")
    out = []
    skip = tuple(getattr(mod, "FORMS_SKIP", ())) + (tuple(getattr(mod, "FORMS_SKIP_QUICK", ())) if tier == "quick" else ())
    for h in hs:
        if "body" in h and h["name"] not in skip and (sel == "all" or h["name"] in sel):
            spec = dict(sel.get(h["name"], {}) if isinstance(sel, dict) else {})
            if h["name"] in getattr(mod, "FORMS_EXCLUDE", {}):
                spec["exclude"] = getattr(mod, "FORMS_EXCLUDE")[h["name"]]
            if h["name"] in getattr(mod, "FORMS_WIDTH", {}):
                spec["width"] = getattr(mod, "FORMS_WIDTH")[h["name"]]
            fl = [f for f in forms.FORMS if f not in spec.get("exclude", ())]
            width = spec.get("width", 3) if tier == "quick" else spec.get("width_thorough", spec.get("width", 3) + 1)
            out.append({"name": "input-forms/" + h["name"], "body": forms.forms_body(h["body"], fl, width),
                        "bound": h.get("bound"), "min_shards": h.get("min_shards", 128),
                        "bound_text": "every alphabet of the harness thinned to %d evenly spaced options (first .. last), enumerated "
                                      "completely, x input forms %s" % (width, fl)})
    hs = hs + out
    if only:
        hs = [h for h in hs if any(h["name"].startswith(o) for o in only.split(","))]
    return hs


def run_check(prop, tier, seed):
    os.environ["TW_VERIF_RUN_ID"] = str(os.getpid())
    try:
        return _run_check(prop, tier, seed)
    finally:
        if prop in ("C18", "C19"):
            from mc.env import loaderenv
            loaderenv.remove_run_scratch()


def _run_check(prop, tier, seed):
    t0 = time.time()
    mod = importlib.import_module("checks.%s" % prop.lower())
    known = load_known()
    total = engine.Stats()
    per_harness = []
    hs = all_harnesses(mod, tier, seed)
    for h in hs:
        th = time.time()
        if "run" in h:
            st = h["run"]()
        else:
            st = engine.explore_parallel("%s/%s" % (prop, h["name"]), h["body"], bound=h.get("bound"),
                                         min_shards=h.get("min_shards", 128), audit_every=h.get("audit_every", 0),
                                         workers=h.get("workers"))
        for v in st.violations:
            v["harness"] = h["name"]
        per_harness.append({"name": h["name"], "executions": st.executions, "cases": st.cases, "calls": st.calls,
                            "states": st.states, "transitions": st.transitions,
                            "distinct_outcomes": len(st.outcomes), "violations": st.n_violations,
                            "max_depth": st.max_depth, "bound": h.get("bound_text", ""),
                            "wall_s": round(time.time() - th, 2)})
        total.merge(st)
    # classify violations
    new, matched = [], {}
    for v in total.violations:
        k = match_known(prop, v, known)
        if k is not None:
            matched.setdefault(k["id"], [k, 0])[1] += total.viol[engine._viol_key(v)][0]
        else:
            new.append(v)
    for kid, (k, cnt) in sorted(matched.items()):
        print("KNOWN-FINDING: property=%s %s: %s (%d recorded case(s) in this run)" % (prop, kid, k["text"], cnt))
    seen = set()
    replay_paths = []
    unconfirmed = []
    for v in new:
        path = write_replay(prop, v.get("harness", ""), v, tier, seed)
        if path in seen:
            continue
        seen.add(path)
        if v.get("needs_fresh_process_confirmation"):
            # verdict changed on an immediate in-process re-run: confirm in a fresh process or give no verdict
            import subprocess
            rr = subprocess.run([sys.executable, "-m", "mc.cli", prop, "--replay", path], cwd=ROOT, capture_output=True, text=True,
                                env=dict(os.environ))
            if rr.returncode != 1:
                unconfirmed.append(path)
                continue
        replay_paths.append(path)
        print("VIOLATION property=%s replay=%s" % (prop, path))
        print("  clause=%s key=%s detail=%s" % (v["clause"], json.dumps(v.get("key"), default=repr)[:300],
                                               json.dumps(v.get("detail"), default=repr)[:400]))
    # violations are recorded per distinct (clause, key); if the key cap was hit some could not be
    # classified against the known findings: that is reported as a violation, never swallowed.
    unclassified = 1 if any("violation-key cap" in c for c in total.caps) else 0
    wall = time.time() - t0
    fp, base = source_fingerprint()
    cov = {
        "states": max(total.states, 1),
        "transitions": max(total.transitions, 1),
        "traces_validated_against_impl": total.executions,
        "samples": total.samples[:6] or [{"note": "no sample recorded"}],
        "evaluations": max(total.cases, 1),
        "distinct_nontrivial": len(total.nontrivial),
        "rule": getattr(mod, "RULE", ""),
        "exhaustive": not total.caps,
        "real_calls": total.calls,
        "distinct_outcomes": len(total.outcomes),
        "max_depth": total.max_depth,
        "bounds": mod.bounds(tier, seed) if hasattr(mod, "bounds") else {},
        "caps_hit": total.caps,
        "counters": total.counters,
        "anchor_lines_hit": anchor_report(mod, total.lines),
        "determinism_reruns": total.reruns,
        "known_findings_matched": {k: c for k, (_, c) in matched.items()},
        "harnesses": per_harness,
        "source_root": base,
        "source_fingerprint": fp,
        "explanation": getattr(mod, "EXPLANATION", ""),
    }
    ev = {"property_id": prop, "tier": tier, "seed": seed, "level": "model_checking", "coverage": cov,
          "assumptions": list(getattr(mod, "ASSUMPTIONS", [])), "wall_s": round(wall, 2),
          "violations": len(replay_paths) + unclassified}
    os.makedirs(os.path.join(ROOT, "evidence"), exist_ok=True)
    with open(os.path.join(ROOT, "evidence", "%s.json" % prop), "w") as f:
        json.dump(ev, f, indent=1, default=repr)
    print("%s tier=%s seed=%d: executions=%d cases=%d real_calls=%d states=%d transitions=%d distinct_outcomes=%d "
          "nontrivial=%d violations=%d known=%d wall=%.1fs" % (prop, tier, seed, total.executions, total.cases,
                                                              total.calls, total.states, total.transitions,
                                                              len(total.outcomes), len(total.nontrivial), len(new),
                                                              sum(c for _, c in matched.values()), wall))
    for ph in per_harness:
        print("   %-28s exec=%-8d cases=%-9d calls=%-9d outcomes=%-7d viol=%d  %.1fs" % (
            ph["name"], ph["executions"], ph["cases"], ph["calls"], ph["distinct_outcomes"], ph["violations"],
            ph["wall_s"]))
    if unclassified:
        print("VIOLATION property=%s replay=%s" % (prop, "(more distinct violations than the recording cap; see evidence)"))
    if replay_paths or unclassified:
        return 1
    if unconfirmed:
        print("HARNESS-ERROR property=%s: %d observation(s) changed verdict on an immediate re-run and did not reproduce in a "
              "fresh process (no verdict): %s" % (prop, len(unconfirmed), unconfirmed[:3]))
        return 2
    return 0


def run_replay(prop, path):
    mod = importlib.import_module("checks.%s" % prop.lower())
    with open(path) as f:
        rec = json.load(f)
    case = engine.unjson(rec["case"])
    fails = [] if (isinstance(case, dict) and case.get("kind") == "execution") else mod.replay(case)
    fails = [f for f in fails if f["clause"] == rec["clause"]] or fails
    if not fails and rec.get("choices") is not None and rec.get("harness"):
        # the case alone passes in a fresh process: re-execute the whole recorded execution (all cases of
        # that leaf, in order) - results that depend on earlier calls of the same execution reproduce this way
        hs = [h for h in all_harnesses(mod, rec.get("tier", "quick"), rec.get("seed", 0)) if h["name"] == rec["harness"] and "body" in h]
        if hs:
            try:
                ctx = engine._run(hs[0]["body"], list(rec["choices"]), engine.Stats(), hs[0].get("bound"))
                fails = [f for f in ctx.failures if f["clause"] == rec["clause"]]
            except engine.ReplayDivergence:
                fails = []          # the harness alphabet changed since the artefact was written: only the case itself can be replayed
                hs = []
        if hs:
            if not fails:
                # still passing: the observation may depend on calls made by EARLIER executions of the same worker
                # (module-level state in the library).  Explore the harness sequentially from its root for up to
                # 60 s and stop at the first failure of the same clause.
                st = engine.Stats()
                t_end = time.time() + 60

                def stop_body(c, _b=hs[0]["body"]):
                    if time.time() > t_end or st.n_violations:
                        return
                    _b(c)
                try:
                    engine.explore(stop_body, (), hs[0].get("bound"), st)
                except engine.ReplayDivergence:
                    pass            # the early stop above ends executions before their prefix is consumed
                fails = [v for v in st.violations if v["clause"] == rec["clause"]]
    if fails:
        print("VIOLATION property=%s replay=%s" % (prop, path))
        for fl in fails[:5]:
            print("  clause=%s detail=%s" % (fl["clause"], json.dumps(engine.jsonable(fl.get("detail")), default=repr)[:600]))
        return 1
    print("replay passes: property=%s %s" % (prop, path))
    return 0


def main(argv=None):
    ap = argparse.ArgumentParser()
    ap.add_argument("prop")
    ap.add_argument("--tier", default=os.environ.get("VERIF_TIER", "quick"))
    ap.add_argument("--replay")
    a = ap.parse_args(argv)
    tier = a.tier if a.tier in ("quick", "thorough") else "quick"
    try:
        seed = int(os.environ.get("VERIF_SEED", "0"))
    except ValueError:
        seed = 0
    sys.path.insert(0, ROOT)
    try:
        if a.replay:
            os.environ["TW_VERIF_RUN_ID"] = str(os.getpid())
            try:
                return run_replay(a.prop.upper(), a.replay)
            finally:
                if a.prop.upper() in ("C18", "C19"):
                    from mc.env import loaderenv
                    loaderenv.remove_run_scratch()
        return run_check(a.prop.upper(), tier, seed)
    except SystemExit:
        raise
    except BaseException:
        traceback.print_exc()
        print("HARNESS-ERROR property=%s (no verdict)" % a.prop.upper())
        return 2


if __name__ == "__main__":
    sys.exit(main())
