"""Model-checking machinery for traffic-weaver (see /verif/DESIGN.md)."""
import os
import sys

# "Rebuild from the current working tree": traffic_weaver is installed editable (a .pth entry
# pointing at /repo/src), so importing it always loads the sources as they are now.  A scratch
# copy (mutant campaigns) can be put in front with TW_VERIF_SRC=<dir containing traffic_weaver/>.
_src = os.environ.get("TW_VERIF_SRC")
if _src:
    sys.path.insert(0, _src)
# Guard name recorded in MANIFEST.hooks.guard; no source hook exists (all seams are applied from
# the harness side), the variable is set so that any future guarded hook is switched on.
os.environ.setdefault("TRAFFIC_WEAVER_VERIF", "1")

VERIF_ROOT = os.path.dirname(os.path.dirname(os.path.abspath(__file__)))
