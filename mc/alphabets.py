"""Lattices and small helpers shared by the harnesses (DESIGN.md section 3)."""
import itertools
from fractions import Fraction as F

import numpy as np


def grids(L, k):
    """All strictly increasing integer k-tuples from {0..L} with first element 0."""
    return [(0,) + c for c in itertools.combinations(range(1, L + 1), k - 1)]


def inc_arrays(L, kmin, kmax):
    """All strictly increasing tuples of kmin..kmax elements over {0..L}."""
    out = []
    for k in range(kmin, kmax + 1):
        out.extend(itertools.combinations(range(L + 1), k))
    return out


def multisets(values, kmin, kmax):
    out = []
    for k in range(kmin, kmax + 1):
        out.extend(itertools.combinations_with_replacement(values, k))
    return out


def half_lattice(lo, hi):
    """lo, lo+1/2, ..., hi as Fractions."""
    return [F(i, 2) for i in range(int(lo * 2), int(hi * 2) + 1)]


V = (0, 1, 2, 5)
VPM = (-2, 0, 1, 3)


def close(a, b, scale=1.0, tol=1e-9):
    a = float(a)
    b = float(b)
    return abs(a - b) <= tol * max(1.0, abs(a), abs(b), scale)


def allclose(a, b, scale=1.0, tol=1e-9):
    a = np.asarray(a, dtype=float)
    b = np.asarray(b, dtype=float)
    if a.shape != b.shape:
        return False
    if a.size == 0:
        return True
    m = np.maximum(np.maximum(np.abs(a), np.abs(b)), max(1.0, scale))
    return bool(np.all(np.abs(a - b) <= tol * m))


def same_bytes(a, b):
    a = np.asarray(a)
    b = np.asarray(b)
    return a.dtype == b.dtype and a.shape == b.shape and a.tobytes() == b.tobytes()


def fl(seq):
    return [float(v) for v in seq]


def spanning_values(m, extra=True):
    """Spanning set of value vectors of length m: zero, unit impulses, ramp, zig-zag, constant."""
    out = [tuple([0] * m)]
    for j in range(m):
        e = [0] * m
        e[j] = 1
        out.append(tuple(e))
    if extra:
        out.append(tuple(range(m)))
        out.append(tuple((2 if i % 2 else -1) for i in range(m)))
        out.append(tuple([3] * m))
        out.append(tuple((i * i) % 5 - 1 for i in range(m)))
    return out


TINY = 2.0 ** -30


def ximage(x, img):
    """abscissa images that defeat tolerance-based shortcuts: 'tiny' = exact scaling by 2^-30 (spacings far below 1e-8),
    'jitter' = a relative perturbation of 1e-6 (a clearly non-uniform grid that np.allclose calls uniform)"""
    if img == "tiny":
        return [float(v) * TINY for v in x]
    if img == "jitter":
        return [float(v) * (1.0 + 1e-6 * ((i % 3) - 1)) for i, v in enumerate(x)]
    return [float(v) for v in x]
