"""Lattices and small helpers shared by the harnesses (DESIGN.md section 3)."""
import itertools
from fractions import Fraction as F

import numpy as np


def grids(L, k):
    """All strictly increasing integer k-tuples from {0..L} with first element 0."""
    return [(0,) + c for c in itertools.combinations(range(1, L + 1), k - 1)]


def inc_arrays(L, kmin, kmax):
    """All strictly increasing tuples of kmin..kmax elements over {0..L}."""
    out = []
    for k in range(kmin, kmax + 1):
        out.extend(itertools.combinations(range(L + 1), k))
    return out


def multisets(values, kmin, kmax):
    out = []
    for k in range(kmin, kmax + 1):
        out.extend(itertools.combinations_with_replacement(values, k))
    return out


def half_lattice(lo, hi):
    """lo, lo+1/2, ..., hi as Fractions."""
    return [F(i, 2) for i in range(int(lo * 2), int(hi * 2) + 1)]


V = (0, 1, 2, 5)
VPM = (-2, 0, 1, 3)


def close(a, b, scale=1.0, tol=1e-9):
    a = float(a)
    b = float(b)
    return abs(a - b) <= tol * max(1.0, abs(a), abs(b), scale)


def allclose(a, b, scale=1.0, tol=1e-9):
    a = np.asarray(a, dtype=float)
    b = np.asarray(b, dtype=float)
    if a.shape != b.shape:
        return False
    if a.size == 0:
        return True
    m = np.maximum(np.maximum(np.abs(a), np.abs(b)), max(1.0, scale))
    return bool(np.all(np.abs(a - b) <= tol * m))


def same_bytes(a, b):
    a = np.asarray(a)
    b = np.asarray(b)
    return a.dtype == b.dtype and a.shape == b.shape and a.tobytes() == b.tobytes()


def fl(seq):
    return [float(v) for v in seq]


def spanning_values(m, extra=True):
    """Spanning set of value vectors of length m: zero, unit impulses, ramp, zig-zag, constant."""
    out = [tuple([0] * m)]
    for j in range(m):
        e = [0] * m
        e[j] = 1
        out.append(tuple(e))
    if extra:
        out.append(tuple(range(m)))
        out.append(tuple((2 if i % 2 else -1) for i in range(m)))
        out.append(tuple([3] * m))
        out.append(tuple((i * i) % 5 - 1 for i in range(m)))
    return out


TINY = 2.0 ** -30


def ximage(x, img):
    """abscissa images that defeat tolerance-based shortcuts: 'tiny' = exact scaling by 2^-30 (spacings far below 1e-8),
    'jitter' = a relative perturbation of 1e-6 (a clearly non-uniform grid that np.allclose calls uniform)"""
    if img == "tiny":
        return [float(v) * TINY for v in x]
    if img == "jitter":
        return [float(v) * (1.0 + 1e-6 * ((i % 3) - 1)) for i, v in enumerate(x)]
    return [float(v) for v in x]


# ------------------------------------------------------------------------------------------------
# Sizes.  Small-scope exhaustiveness says nothing about behaviour that starts at a chunk size, a stride, a block width or
# a cache capacity.  "One input per shortcut you can see in the code": the integer constants of the source under test
# (literals and constant-folded integer expressions such as 1 << 16) are read from its AST, and every size alphabet below
# crosses each of them, next to a dense range of small sizes and the usual powers of two.
_CODE_CONSTANTS = {}


def code_constants(lo=8, hi=2 ** 19, subpath="", exclude=None):
    """sorted integer constants c (lo <= c <= hi) that occur in the source of the traffic_weaver under test"""
    import ast
    import glob
    import os
    key = (lo, hi, subpath, exclude)
    if key in _CODE_CONSTANTS:
        return _CODE_CONSTANTS[key]
    import traffic_weaver
    root = os.path.dirname(traffic_weaver.__file__)
    found = set()
    for f in glob.glob(os.path.join(root, "**", "*.py"), recursive=True):
        rel = os.path.relpath(f, root)
        if subpath and not rel.startswith(subpath):
            continue
        if exclude and rel.startswith(exclude):
            continue
        if rel.startswith(os.path.join("datasets", "data")) or rel.endswith("_version.py"):
            continue
        try:
            tree = ast.parse(open(f, encoding="utf-8").read())
        except (SyntaxError, OSError):
            continue
        for node in ast.walk(tree):
            v = None
            if isinstance(node, ast.Constant) and type(node.value) is int:
                v = node.value
            elif isinstance(node, ast.BinOp):
                try:
                    v = eval(compile(ast.Expression(node), "<const>", "eval"), {"__builtins__": {}})
                except Exception:
                    v = None
                if type(v) is not int:
                    v = None
            if v is not None and lo <= v <= hi:
                found.add(v)
    _CODE_CONSTANTS[key] = sorted(found)
    return _CODE_CONSTANTS[key]


POW2_SIZES = (17, 33, 65, 129, 257, 513, 1025)


def env_constants():
    """thresholds nobody wrote down: sizes at which the *platform* changes behaviour and which a computed threshold is
    likely to be derived from - CPython's small-int cache (256), the ranges of the narrow index dtypes (2^8, 2^15, 2^16),
    NumPy's pairwise-summation block (128) and ufunc buffer (np.getbufsize()), the default buffer of the io module"""
    import io
    import os
    if os.environ.get("TW_VERIF_NO_W7"):
        return []
    return sorted({128, 256, 2 ** 15, 2 ** 16, int(np.getbufsize()), int(io.DEFAULT_BUFFER_SIZE)})


def _around(c):
    return [c - 1, c, c + 1, c + 2, 2 * c - 1, 2 * c, 2 * c + 1, 2 * c + 2, 3 * c + 1]


def sizes(dense_to, cap, around_constants=True, pow2=True, minimum=1, subpath="", exclude="datasets"):
    """size alphabet: every size minimum..dense_to; c-1, c, c+1, c+2, 2c, 2c+1, 3c+1 for every code constant c; 2^k+1;
    everything capped at `cap` (sizes above the cap are reported by sizes_dropped).  The dataset loader's constants (file
    chunk sizes) are left to C19's payload sizes unless exclude=None"""
    s = set(range(minimum, dense_to + 1))
    if pow2:
        s.update(POW2_SIZES)
    if around_constants:
        for c in code_constants(subpath=subpath, exclude=exclude):
            s.update([c - 1, c, c + 1, c + 2, 2 * c, 2 * c + 1, 3 * c + 1])
        for c in env_constants():
            s.update(_around(c))
    return sorted(v for v in s if minimum <= v <= cap)


def sizes_dropped(dense_to, cap, subpath="", exclude="datasets"):
    s = set()
    for c in code_constants(subpath=subpath, exclude=exclude):
        s.update([c - 1, c, c + 1, c + 2, 2 * c, 2 * c + 1, 3 * c + 1])
    for c in env_constants():
        s.update(_around(c))
    return sorted(v for v in s if v > cap)


def thresholds(hi, lo=64, subpath="", exclude="datasets"):
    """candidate thresholds of a *derived* quantity (a total number of samples, a byte count): powers of two, the code's
    integer constants, the platform constants of env_constants() and those divided by the item sizes 4 and 8"""
    t = set([64, 128, 256, 512, 1024]) | set(code_constants(subpath=subpath, exclude=exclude))
    for e in env_constants():
        t.update([e, e // 4, e // 8])
    return sorted(v for v in t if lo <= v <= hi)


def product_pairs(ns, cap_total, lo=64, minimum=3, subpath=""):
    """(m, n) such that the number of intervals m-1 (and so the oversampled length (m-1)*n+1) crosses c // n for every
    threshold c: where a block of c samples / c // n intervals ends"""
    out = set()
    for c in thresholds(cap_total, lo=lo, subpath=subpath):
        for n in ns:
            for d in (-1, 0, 1, 2, 3):
                m = c // n + d
                if m >= minimum and (m - 1) * n + 1 <= cap_total:
                    out.add((m, n))
    return sorted(out)


def long_grid(m, kind):
    """m strictly increasing abscissae, exactly representable (dyadic): 'uniform' 0, 1/2, 1, ...; 'offset' the same
    starting at -3; 'gaps' steps cycling 1/2, 1, 1/4, 2; 'late-gap' uniform with one double step in the last third"""
    if kind == "uniform":
        return [0.5 * i for i in range(m)]
    if kind == "offset":
        return [0.5 * i - 3.0 for i in range(m)]
    if kind == "gaps":
        steps = (0.5, 1.0, 0.25, 2.0)
        out, v = [], -1.0
        for i in range(m):
            out.append(v)
            v += steps[i % 4]
        return out
    if kind == "late-gap":
        out, v = [], 0.0
        for i in range(m):
            out.append(v)
            v += 1.0 if i == (2 * m) // 3 else 0.5
        return out
    raise ValueError(kind)


def long_values(m, kind):
    """m exactly representable ordinates: 'saw' period-5 sawtooth with sign changes, 'ramp' growing, 'steps' plateaus"""
    if kind == "saw":
        return [float((3 * i) % 5 - 2) for i in range(m)]
    if kind == "ramp":
        return [0.25 * i - 1.0 for i in range(m)]
    if kind == "steps":
        return [float((i // 3) % 4) for i in range(m)]
    raise ValueError(kind)


def interesting_indices(m, dense_to=48, subpath="", limit=40, exclude="datasets"):
    """all indices of a short array; for a long one the ends and the neighbourhood of the first multiples of every
    power of two >= 8 and of every code constant (where strides, blocks and chunks begin and end)"""
    if m <= dense_to:
        return list(range(m))
    s = {0, 1, 2, m - 3, m - 2, m - 1, m // 2}
    cs = sorted(set([8, 16, 32, 64, 128, 256, 512, 1024]) | set(code_constants(subpath=subpath, exclude=exclude)) | set(env_constants()))
    for c in cs:
        for k in (1, 2, 3):
            for d in (-1, 0, 1):
                s.add(k * c + d)
    # the last full block of every block size, and the remainder behind it
    for c in cs:
        if c < m:
            last = (m // c) * c
            s.update([last - 1, last, last + 1, (last + m) // 2])
    out = sorted(i for i in s if 0 <= i < m)
    if len(out) > limit:
        # keep the ends and thin the middle evenly, deterministically
        keep = set(out[:8] + out[-6:])
        rest = [i for i in out if i not in keep]
        step = max(1, len(rest) // max(1, limit - len(keep)))
        keep.update(rest[::step])
        out = sorted(keep)
    return out
