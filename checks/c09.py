"""C09 - Weaver state stays well-formed; caller data and the original are never corrupted (E2)."""
import copy
import warnings

import numpy as np

from mc.harness import fail, kind
from checks import rfacommon as RC
from checks import weaverops as WO

PROPERTY = "C09"
RULE = ("all programs over the public Weaver API (60 concrete operations of 20 kinds incl. observers, restore_original and interpolate with both n and new_x) "
        "respecting each documented precondition (evaluated on the reference model), from 7 constructors/initial series: "
        "full alphabet to depth 2/3, core alphabet (25 ops, every kind) to depth 3/4, programs on ulp-spaced abscissae, and the README pipeline with every "
        "insertion/replacement/deletion of up to 1/2 operations (programs of <= 9 operations). In every state: "
        "well-formedness, caller data bytes, original bytes/model; after restore_original: observational equality with a "
        "fresh object, 1-step bisimulation over the whole alphabet and 2-step bisimulation over 9 operations. Signature = digest of observables; "
        "non-trivial = state differs from the initial one")
ASSUMPTIONS = ["noise uses a deterministic generator seam; trend callables are pure",
               "1-step bisimulation after restore_original: operations read only the three series (x_scale / y_scale are write-only)",
               "length cap %d samples; FITPACK warnings ignored" % WO.LEN_CAP]
ANCHORS = {"weaver.py": [(64, 79), (211, 230), (413, 422)], "process.py": [(149, 157)]}
FORMS_HARNESSES = "all"
FORMS_WIDTH = {"full-alphabet": 6, "core-alphabet": 6, "ulp-spaced-abscissae": 4, "pipeline-deviations": 5}
EXPLANATION = "exhaustive exploration of API programs on the live object with invariants in every state"

CORE_OPS = [("append", True), ("shift_x", 1.0), ("shift_y", 2.0), ("scale_x", 0.5), ("scale_y", -1.0), ("normalize_x", 0.0, 1.0),
            ("normalize_y", 0.0, 10.0), ("repeat", 2), ("truncate_by_value", "absA"), ("truncate_by_index", 1, None),
            ("recreate", "linfix", 2), ("recreate", "spline", 2), ("recreate", "expada", 3),
            ("integral_match", "trapezoid", "rectangle"), ("interpolate_n", 7, "linear"), ("interpolate_n", 7, "spline"),
            ("interpolate_grid", True, "linear"), ("interpolate_both", 9, "linear"), ("smooth", 0.5), ("trend", "half-t", False), ("trend", "sin", True),
            ("noise", "scalar"), ("restore_original",), ("observe", "slice_by_value"), ("observe", "to_function")]
BISIM2 = [("shift_y", 2.0), ("scale_y", -1.0), ("scale_x", 0.5), ("smooth", 0.5), ("smooth", 0), ("observe", "to_function"),
          ("recreate", "linfix", 2), ("interpolate_n", 7, "spline"), ("normalize_y", 0.0, 10.0)]
PIPELINE = [("append", True), ("recreate", "expada", 3), ("integral_match", "trapezoid", "rectangle"), ("smooth", 0.5),
            ("repeat", 2), ("trend", "half-t", False), ("noise", "scalar")]


def bounds(tier, seed):
    q = tier == "quick"
    return {"full_alphabet_depth": 2 if q else 3, "core_alphabet_depth": 3 if q else 4, "pipeline_deviations": 1 if q else 2,
            "concrete_ops": len(WO.ALL_OPS), "core_ops": len(CORE_OPS), "constructors": 7}


def bisimulation(r):
    """after restore_original: observationally equal to Weaver(*get_original()), now and after one
    further step with every operation of the alphabet"""
    from traffic_weaver import Weaver
    ox, oy = r.wv.get_original()
    fresh = Weaver(ox.copy(), oy.copy())
    a, b = WO.observables(r.wv), WO.observables(fresh)
    if a != b:
        names = ["x", "y", "reference_x", "reference_y", "original_x", "original_y"]
        diff = [names[i] for i in range(6) if a[i] != b[i]]
        return [fail("restore-differs-from-fresh-object", {"differs": diff, "restored_reference": r.wv.get_reference(),
                                                           "fresh_reference": fresh.get_reference()}, {"differs": diff[0]})]
    fails = []
    fr = WO.Runner.__new__(WO.Runner)
    for op in WO.ALL_OPS:
        if r.concretize(op) is None or op[0] == "observe":
            continue
        ra, rb = copy.deepcopy(r.wv), copy.deepcopy(fresh)
        method, args, kwargs = r.concretize(op)
        res = []
        for w in (ra, rb):
            with warnings.catch_warnings():
                warnings.simplefilter("ignore")
                with WO.NoiseSeam():
                    try:
                        getattr(w, method)(*args, **kwargs)
                        res.append(WO.observables(w))
                    except Exception as e:  # noqa
                        res.append(("exc", type(e).__name__))
        if res[0] != res[1]:
            fails.append(fail("restore-not-bisimilar-to-fresh-object", {"next_op": op}, {"next_op": op[0]}))
            break
    if fails:
        return fails
    # two further steps over a small alphabet (every kind that fits or evaluates a spline, rescales or reshapes)
    for op1 in BISIM2:
        for op2 in BISIM2:
            ra, rb = copy.deepcopy(r.wv), copy.deepcopy(fresh)
            res = []
            for w in (ra, rb):
                rr = WO.Runner.__new__(WO.Runner)
                rr.wv = w
                rr.model = r.model.copy()
                with warnings.catch_warnings():
                    warnings.simplefilter("ignore")
                    with WO.NoiseSeam():
                        try:
                            for op in (op1, op2):
                                c = rr.concretize(op)
                                if c is None:
                                    raise LookupError("disabled")
                                if c[0] == "observe":
                                    rr._observe(c[1][0])
                                else:
                                    getattr(w, c[0])(*c[1], **c[2])
                                if op[0] in ("recreate", "interpolate_n"):
                                    gx, gy = w.get()
                                    rr.model.reshape_to(WO.fl(gx), WO.fl(gy))
                            ev = w.to_function(0.5)(np.asarray(w.get()[0], dtype=float)).tobytes() if len(w) >= 4 else b""
                            res.append((WO.observables(w), ev))
                        except LookupError:
                            res.append("disabled")
                        except Exception as e:  # noqa
                            res.append(("exc", type(e).__name__))
            if res[0] != res[1]:
                return [fail("restore-not-bisimilar-to-fresh-object", {"next_ops": [op1, op2]}, {"next_op": op2[0], "steps": 2})]
    return fails


def state_checks(r, op, before_obs):
    fails = []
    fails += r.wellformed()
    fails += r.caller_untouched()
    fails += r.original_ok(op)
    if op is not None and op[0] == "observe" and before_obs is not None and WO.observables(r.wv) != before_obs:
        fails.append(fail("observer-changed-state", {"observer": op[1]}, {"observer": op[1]}))
    if op is not None and op[0] == "restore_original" and not fails:
        fails += bisimulation(r)
    return WO.tag(fails, op, r.history)


@kind("history-c09")
def check_history(case):
    r = WO.Runner(WO.INITS[case["init"]])
    r.any_match = True
    fails = list(state_checks(r, None, None)) if not case["ops"] else []
    before = None
    for i, op in enumerate(case["ops"]):
        op = tuple(op)
        if r.concretize(op) is None:
            return [fail("replay-precondition", {"op": op}, {})]
        before = WO.observables(r.wv)
        try:
            r.apply(op)
        except Exception as e:  # noqa
            return WO.tag([fail("raised", {"exception": repr(e)}, {"exc": type(e).__name__})], op, r.history)
        if i == len(case["ops"]) - 1:
            fails = state_checks(r, op, before)
    return fails


def replay(case):
    return check_history(case)


def _history_body(alphabet, depth, inits, seed):
    def body(ctx):
        ii = ctx.choose(inits, "init")
        r = WO.Runner(WO.INITS[ii])
        # no documented precondition of integral_match forbids coinciding or crowded fixed points: every state with
        # two or more working and reference samples may call it (the result must stay well-formed)
        r.any_match = True
        done = []

        def node(op, before):
            if not ctx.fresh:
                return
            case = {"kind": "history-c09", "init": ii, "ops": [list(o) for o in done]}
            fails = state_checks(r, op, before)
            ctx.case(1)
            for f in fails:
                ctx.fail(f["clause"], case, f.get("detail"), f.get("key"))
            ctx.outcome(WO.observables(r.wv), nontrivial=len(done) > 0)
            if len(done) == 3 and ii == 5 and sum(ctx.choices) % 211 == 0:
                ctx.sample({"init": WO.INITS[ii]["name"], "program": [list(o) for o in done]})
        node(None, None)
        for d in range(depth):
            en = r.enabled(alphabet)
            op = ctx.choose(en, "op%d" % d)
            before = WO.observables(r.wv) if op[0] == "observe" else None
            try:
                r.apply(op)
            except Exception as e:  # noqa
                if ctx.fresh:
                    case = {"kind": "history-c09", "init": ii, "ops": [list(o) for o in done + [op]]}
                    ctx.fail("raised", case, {"exception": repr(e)}, {"op": op[0], "exc": type(e).__name__})
                return
            ctx.call(1)
            done.append(op)
            node(op, before)
    return body


def _pipeline_body(alphabet):
    """README pipeline with bounded deviations: before each pipeline step an operation may be
    inserted (cost 1); each step may be kept (0), deleted (1) or replaced (1)."""
    nA = len(alphabet)
    ins_costs = [0] + [1] * nA
    rep_costs = [0, 1] + [1] * nA

    def body(ctx):
        ii = ctx.choose([0, 1, 5], "init")
        r = WO.Runner(WO.INITS[ii])
        r.any_match = True
        done = []

        def do(op):
            if r.concretize(op) is None:
                ctx.note("skipped_disabled_op")
                return True
            before = WO.observables(r.wv) if op[0] == "observe" else None
            try:
                r.apply(op)
            except Exception as e:  # noqa
                if ctx.fresh:
                    case = {"kind": "history-c09", "init": ii, "ops": [list(o) for o in done + [op]]}
                    ctx.fail("raised", case, {"exception": repr(e)}, {"op": op[0], "exc": type(e).__name__})
                return False
            ctx.call(1)
            done.append(op)
            if ctx.fresh:
                case = {"kind": "history-c09", "init": ii, "ops": [list(o) for o in done]}
                for f in state_checks(r, op, before):
                    ctx.fail(f["clause"], case, f.get("detail"), f.get("key"))
                ctx.case(1)
                ctx.outcome(WO.observables(r.wv))
            return True
        for i, step in enumerate(PIPELINE + [None]):
            c = ctx.choose(1 + nA, "insert%d" % i, costs=ins_costs)
            if c > 0 and not do(alphabet[c - 1]):
                return
            if step is None:
                break
            c = ctx.choose(2 + nA, "step%d" % i, costs=rep_costs)
            op = step if c == 0 else None if c == 1 else alphabet[c - 2]
            if op is not None and not do(op):
                return
        if len(done) >= 8 and sum(ctx.choices) % 97 == 0:
            ctx.sample({"init": WO.INITS[ii]["name"], "program": [list(o) for o in done]})
    return body


def harnesses(tier, seed):
    quick = tier == "quick"
    inits = list(range(7))
    ULP_OPS = [("normalize_x", 0.0, 1.0), ("normalize_y", 0.0, 10.0), ("scale_x", 2.0), ("scale_x", 0.5), ("scale_y", -1.0), ("shift_y", 2.0),
               ("truncate_by_index", 1, None), ("restore_original",), ("observe", "get_original"), ("observe", "slice_by_value")]
    hs = [{"name": "full-alphabet", "body": _history_body(WO.ALL_OPS, 2 if quick else 3, inits, seed),
           "bound_text": "all programs over 59 concrete ops to depth %d" % (2 if quick else 3)},
          {"name": "core-alphabet", "body": _history_body(CORE_OPS, 3 if quick else 4, inits, seed),
           "bound_text": "all programs over 24 core ops to depth %d" % (3 if quick else 4)},
          {"name": "ulp-spaced-abscissae", "body": _history_body(ULP_OPS, 3, [7, 9], seed),
           "bound_text": "all programs over 10 operations that are exact on ulp-spaced abscissae, depth 3"},
          {"name": "pipeline-deviations", "body": _pipeline_body(CORE_OPS if quick else WO.ALL_OPS), "bound": 1 if quick else 2,
           "bound_text": "README pipeline +- %d deviations" % (1 if quick else 2)}]
    return hs
