"""Weaver history explorer (E2): concrete operation alphabet, documented preconditions evaluated
on the reference model, a Runner that applies operations to a live Weaver and to the model side by
side and evaluates the invariants of C08 / C09 in every state.  Used by C08, C09, C20."""
import copy
import math
import warnings
from fractions import Fraction as F

import numpy as np

from mc import alphabets as A
from mc.harness import fail
from mc.refmodel import match as RM
from mc.refmodel.weaver import WeaverModel
from checks import rfacommon as RC

LEN_CAP = 96

INITS = [
    {"name": "uniform-float-4", "x": [0.0, 1.0, 2.0, 3.0], "y": [1.0, 3.0, 2.0, 5.0], "ctor": "arrays", "dtype": "float64"},
    {"name": "nonuniform-float-5-tie", "x": [0.0, 1.0, 3.0, 4.0, 8.0], "y": [2.0, 2.0, 5.0, 0.0, 1.0], "ctor": "arrays", "dtype": "float64"},
    {"name": "int-4", "x": [0, 2, 3, 7], "y": [1, 0, 4, 2], "ctor": "arrays", "dtype": "int64"},
    {"name": "lists-5", "x": [1.0, 1.5, 2.5, 4.0, 4.5], "y": [0.0, 1.0, 1.0, 3.0, 2.0], "ctor": "lists", "dtype": "float64"},
    {"name": "x-none-5", "x": None, "y": [3.0, 1.0, 4.0, 1.0, 5.0], "ctor": "arrays", "dtype": "float64"},
    {"name": "2d-array-views", "x": [0.0, 1.0, 2.0, 4.0, 5.0, 7.0], "y": [1.0, 2.0, 0.0, 3.0, 3.0, 1.0], "ctor": "2d", "dtype": "float64"},
    {"name": "dataframe", "x": [0.0, 0.5, 1.5, 2.0], "y": [2.0, 1.0, 4.0, 0.0], "ctor": "dataframe", "dtype": "float64"},
    # abscissae whose spacing is one or two ulp of their magnitude (used only with operations that are exact there)
    {"name": "ulp-spaced-2^52", "x": [float(2 ** 52 + k) for k in range(10)], "y": [float((3 * k) % 5) for k in range(10)], "ctor": "arrays", "dtype": "float64"},
    # a missing last sample (NaN) that the first operation of the history truncates away
    {"name": "nan-tail", "x": [0.0, 1.0, 2.0, 3.0, 4.0, 5.0], "y": [1.0, 3.0, 2.0, 5.0, 4.0, float("nan")], "ctor": "arrays", "dtype": "float64"},
    {"name": "ulp-spaced-4e15", "x": [4e15 + 0.5 * k for k in range(12)], "y": [float((7 * k) % 4) for k in range(12)], "ctor": "arrays", "dtype": "float64"},
]

DOMAIN_OPS = [
    ("append", False), ("append", True),
    ("shift_x", 1.0), ("shift_x", -2.5), ("shift_x", 5e6), ("shift_y", 2.0),
    ("scale_x", 2.0), ("scale_x", 0.5), ("scale_y", 2.0), ("scale_y", -1.0),
    ("normalize_x", 0.0, 1.0), ("normalize_y", 0.0, 10.0),
    ("repeat", 2), ("repeat", 3), ("repeat", 6), ("repeat", 7),
    ("truncate_by_value", "onS"), ("truncate_by_value", "absA"), ("truncate_by_value", "absB"), ("truncate_by_value", "ratioA"), ("truncate_by_value", "mixB"),
    ("truncate_by_index", 1, None), ("truncate_by_index", 0, -1),
]

TRENDS = {"half-t": lambda t: 0.5 * t, "one": lambda t: 1.0, "sin": lambda t: math.sin(t)}

RESHAPE_OPS = (
    [("recreate", st, n) for st in RC.STRATS for n in (2, 3)]
    + [("integral_match", "trapezoid", "rectangle"), ("integral_match", "rectangle", "trapezoid")]
    + [("interpolate_n", 7, m) for m in ("linear", "constant", "cubic", "spline")]
    + [("interpolate_grid", False, "linear"), ("interpolate_grid", True, "linear"), ("interpolate_both", 9, "linear")]
    + [("smooth", 0), ("smooth", 0.5), ("smooth", None)]
    + [("trend", f, nz) for f in ("half-t", "one", "sin") for nz in (False, True)]
    + [("noise", "scalar"), ("noise", "list")]
)
OTHER_OPS = [("restore_original",)] + [("observe", o) for o in ("get", "get_original", "get_reference", "slice_by_index",
                                                                "slice_by_value", "to_2d_array", "to_function", "len")]
ALL_OPS = DOMAIN_OPS + RESHAPE_OPS + OTHER_OPS
DOMAIN_KINDS = {"append", "shift_x", "shift_y", "scale_x", "scale_y", "normalize_x", "normalize_y", "repeat",
                "truncate_by_value", "truncate_by_index"}


class NoiseSeam:
    """owns numpy.random.normal during a step: returns loc + scale * (+1, -1, +1, ...)"""

    def __enter__(self):
        self.orig = np.random.normal

        def fake(loc=0.0, scale=1.0, size=None):
            n = int(np.prod(size)) if size is not None else 1
            u = np.array([1.0 if i % 2 == 0 else -1.0 for i in range(n)]).reshape(size if size is not None else ())
            return loc + np.asarray(scale) * u
        np.random.normal = fake
        return self

    def __exit__(self, *a):
        np.random.normal = self.orig


def fl(seq):
    return [float(v) for v in seq]


def snap(a):
    """(type, dtype, shape, bytes) of one observable"""
    if isinstance(a, np.ndarray):
        return ("ndarray", str(a.dtype), a.shape, a.tobytes())
    return (type(a).__name__, None, None, repr(a))


def observables(wv):
    gx, gy = wv.get()
    rx, ry = wv.get_reference()
    ox, oy = wv.get_original()
    return tuple(snap(a) for a in (gx, gy, rx, ry, ox, oy))


def values_only(obs):
    """observables reduced to their numeric content (dtype/type ignored)"""
    out = []
    for s in obs:
        if s[0] == "ndarray":
            out.append((s[2], np.frombuffer(s[3], dtype=s[1]).astype(float).tobytes()))
        else:
            out.append(s)
    return tuple(out)


def trunc_args(kind_, x):
    """truncation bounds chosen strictly between samples of the current working grid"""
    x = [F(v) for v in x]
    if len(x) < 4:
        return None
    if kind_ == "absA":
        return (float((x[1] + x[2]) / 2), float(x[-1] + 1), False, False)
    if kind_ == "absB":
        return (float(x[0] - 1), float((x[-3] + x[-2]) / 2), False, False)
    if kind_ == "ratioA":
        return (0.3, 0.8, True, True)
    return (0.4, float((x[-2] + x[-1]) / 2), True, False)


class Runner:
    """One live Weaver + its reference model + the caller's data."""

    def __init__(self, init):
        from traffic_weaver import Weaver
        self.init = init
        dt = init["dtype"]
        self.caller = {}
        y = init["y"]
        x = init["x"]
        if init["ctor"] == "arrays":
            self.caller["y"] = np.array(y, dtype=dt)
            self.caller["x"] = None if x is None else np.array(x, dtype=dt)
            self.wv = Weaver(self.caller["x"], self.caller["y"])
        elif init["ctor"] == "lists":
            self.caller["x"], self.caller["y"] = list(x), list(y)
            self.wv = Weaver(self.caller["x"], self.caller["y"])
        elif init["ctor"] == "2d":
            self.caller["xy"] = np.column_stack((np.array(x, dtype=dt), np.array(y, dtype=dt)))
            self.wv = Weaver.from_2d_array(self.caller["xy"])
        else:
            import pandas as pd
            self.caller["df"] = pd.DataFrame({"a": np.array(x, dtype=dt), "b": np.array(y, dtype=dt)})
            self.wv = Weaver.from_dataframe(self.caller["df"], x_col="a", y_col="b")
        self.caller_snap = self._caller_snapshot()
        self.model = WeaverModel(x, y)
        self.history = []
        self.orig_snap = tuple(snap(a) for a in self.wv.get_original())

    def _caller_snapshot(self):
        out = {}
        for k, v in self.caller.items():
            if v is None:
                out[k] = None
            elif isinstance(v, np.ndarray):
                out[k] = (str(v.dtype), v.shape, v.tobytes())
            elif isinstance(v, list):
                out[k] = repr(v)
            else:
                out[k] = (tuple(str(t) for t in v.dtypes), v.to_numpy().tobytes())
        return out

    # ---- enabling (documented preconditions, evaluated on the model) ----------------------------
    def concretize(self, op):
        """-> (method, args, kwargs) ready for the live object, or None when the documented
        precondition of the operation does not hold in the current model state."""
        m = self.model
        wx, wy = m.w
        L = len(wx)
        k = op[0]
        if k == "append":
            return ("append_one_sample", (), {"make_periodic": op[1]}) if 2 <= L < LEN_CAP else None
        if k in ("shift_x", "shift_y", "scale_x", "scale_y"):
            return (k, (op[1],), {})
        if k == "normalize_x":
            return (k, (op[1], op[2]), {}) if L >= 2 else None
        if k == "normalize_y":
            ok = all(any(v != v for v in p[1]) or max(p[1]) > min(p[1]) for p in (m.w, m.ref, m.orig)) and \
                not any(v != v for v in m.w[1] + m.ref[1])
            return (k, (op[1], op[2]), {}) if ok else None
        if k == "repeat":
            return (k, (op[1],), {}) if L >= 2 and L * op[1] <= LEN_CAP and len(m.ref[0]) >= 2 else None
        if k == "truncate_by_value" and op[1] == "onS":
            # bounds exactly ON the second and the last-but-one sample of the live working series (whatever rounding it
            # carries): "the last sample <= left" is then sample 1, "the first sample >= right" is sample L-2.  Only while
            # the series is unreshaped (the reference is the same series, so the same indices apply to it).
            if m.reshaped or L < 5 or m.w[0] != m.ref[0]:
                return None
            ox = self.wv.get()[0]
            if len(ox) != L:
                return None
            return (k, (float(ox[1]), float(ox[-2])), {"x_left_as_ratio": False, "x_right_as_ratio": False})
        if k == "truncate_by_value":
            a = trunc_args(op[1], wx)
            if a is None or len(m.ref[0]) < 2:
                return None
            for p in (m.w, m.ref):
                mg = WeaverModel.truncate_margin(p[0], *a)
                if mg is None or mg < F(1, 10 ** 6):
                    return None
                tx, _ = WeaverModel._truncate(p[0], p[1], *a)
                if len(tx) < 3:
                    return None
            return (k, (a[0], a[1]), {"x_left_as_ratio": a[2], "x_right_as_ratio": a[3]})
        if k == "truncate_by_index":
            start, stop = op[1], op[2]
            stop_c = None if stop is None else L + stop
            eff = L if stop_c is None else stop_c
            # same index range must be valid for the reference series as well
            if eff - start < 3 or len(m.ref[0][start:stop_c]) < 3:
                return None
            return (k, (start, stop_c), {})
        if k == "recreate":
            st, n = op[1], op[2]
            if L < 2 or (L - 1) * n + 1 > LEN_CAP:
                return None
            return ("recreate_from_average", (n,), dict(rfa_class=RC.cls(st)))
        if k == "integral_match":
            if len(m.ref[0]) < 2 or L < 2:
                return None
            if not getattr(self, "any_match", False):
                # C08 / C20: only where the matching itself is meaningful (distinct fixed points, interior samples)
                sel = RM.fixed_selection(fl(wx), fl(m.ref[0]), "search", "closest")
                if sel[0] != "ok":
                    return None
            return (k, (), {"target_function_integral_method": op[1], "reference_function_integral_method": op[2]})
        if k == "interpolate_n":
            if L < 4:
                return None
            return ("interpolate", (), {"n": op[1], "method": op[2]})
        if k == "interpolate_grid":
            if L < 2:
                return None
            gx = self.wv.get()[0]
            x0, x1 = float(gx[0]), float(gx[-1])
            grid = [x0, x0 + 0.25 * (x1 - x0), (x0 + x1) / 2, x1]
            return ("interpolate", (), {"new_x": grid if op[1] else np.array(grid), "method": op[2]})
        if k == "interpolate_both":
            # n AND new_x given: documented "n ignored if new_x specified"
            if L < 2:
                return None
            gx = self.wv.get()[0]
            x0, x1 = float(gx[0]), float(gx[-1])
            grid = [x0, x0 + 0.25 * (x1 - x0), (x0 + x1) / 2, x1]
            return ("interpolate", (), {"n": op[1], "new_x": np.array(grid), "method": op[2]})
        if k == "smooth":
            return ("smooth", (op[1],), {}) if L >= 4 else None
        if k == "trend":
            return ("trend", (TRENDS[op[1]],), {"normalized": op[2]})
        if k == "noise":
            return ("noise", (10.0 if op[1] == "scalar" else [10.0 + (i % 3) for i in range(L)],), {})
        if k == "restore_original":
            return ("restore_original", (), {})
        if k == "observe":
            return ("observe", (op[1],), {})
        raise KeyError(op)

    def enabled(self, alphabet):
        return [op for op in alphabet if self.concretize(op) is not None]

    # ---- one transition ---------------------------------------------------------------------
    def apply(self, op):
        """apply op to the live object and the model; returns (exception or None)."""
        c = self.concretize(op)
        method, args, kwargs = c
        wv = self.wv
        with warnings.catch_warnings():
            warnings.simplefilter("ignore")
            with NoiseSeam():
                if method == "observe":
                    self._observe(args[0])
                else:
                    getattr(wv, method)(*args, **kwargs)
        m = self.model
        k = op[0]
        if k == "append":
            m.append(op[1])
        elif k in ("shift_x", "shift_y", "scale_x", "scale_y"):
            getattr(m, k)(op[1])
        elif k in ("normalize_x", "normalize_y"):
            getattr(m, k)(op[1], op[2])
        elif k == "repeat":
            m.repeat(op[1])
        elif k == "truncate_by_value" and op[1] == "onS":
            m.truncate_by_index(1, len(m.w[0]) - 1)
        elif k == "truncate_by_value":
            m.truncate_by_value(args[0], args[1], kwargs["x_left_as_ratio"], kwargs["x_right_as_ratio"])
        elif k == "truncate_by_index":
            m.truncate_by_index(args[0], args[1])
        elif k == "restore_original":
            m.restore_original()
        elif k == "observe":
            pass
        else:
            gx, gy = wv.get()
            try:
                m.reshape_to(fl(gx), fl(gy))
            except Exception:
                m.reshaped = True
        if k in ("normalize_x", "normalize_y"):
            # normalisation renormalises the stored original by design: new baseline for 'unchanged'
            self.orig_snap = tuple(snap(a) for a in wv.get_original())
        self.history.append(op)

    def _observe(self, what):
        wv = self.wv
        if what == "get":
            wv.get()
        elif what == "get_original":
            wv.get_original()
        elif what == "get_reference":
            wv.get_reference()
        elif what == "slice_by_index":
            wv.slice_by_index(1, len(wv) - 1, 2)
        elif what == "slice_by_value":
            gx = wv.get()[0]
            wv.slice_by_value(gx[0], gx[len(gx) // 2])
        elif what == "to_2d_array":
            wv.to_2d_array()
        elif what == "to_function":
            if len(wv) >= 4:
                wv.to_function()(wv.get()[0][0])
        elif what == "len":
            len(wv)

    # ---- invariants ---------------------------------------------------------------------------
    def wellformed(self):
        """C09: processed series is a pair of equal-length 1-D arrays, finite, x strictly increasing"""
        gx, gy = self.wv.get()
        fails = []
        for nm, a in (("x", gx), ("y", gy)):
            if not isinstance(a, np.ndarray):
                fails.append(fail("not-ndarray", {"which": nm, "type": type(a).__name__}, {"which": nm}))
            elif a.ndim != 1:
                fails.append(fail("not-1d", {"which": nm, "shape": a.shape}, {"which": nm}))
            elif a.dtype.kind not in "fiu":
                fails.append(fail("not-numeric", {"which": nm, "dtype": str(a.dtype)}, {"which": nm}))
        if fails:
            return fails
        if len(gx) != len(gy):
            return [fail("length-mismatch", {"len_x": len(gx), "len_y": len(gy)}, {})]
        if not (np.all(np.isfinite(gx)) and np.all(np.isfinite(gy))):
            fails.append(fail("not-finite", {"x": gx, "y": gy}, {}))
        elif len(gx) > 1 and not np.all(np.diff(gx.astype(float)) > 0):
            fails.append(fail("x-not-increasing", {"x": gx}, {}))
        return fails

    def caller_untouched(self):
        now = self._caller_snapshot()
        bad = [k for k in now if now[k] != self.caller_snap[k]]
        return [fail("caller-data-modified", {"which": bad}, {"which": bad[0]})] if bad else []

    def original_ok(self, last_op):
        cur = tuple(snap(a) for a in self.wv.get_original())
        fails = []
        if cur != self.orig_snap:
            fails.append(fail("original-changed", {"now": self.wv.get_original()}, {}))
        ox, oy = self.wv.get_original()
        if not _close_series((ox, oy), self.model.orig):
            fails.append(fail("original-differs-from-model", {"observed": [ox, oy], "expected": [fl(self.model.orig[0]), fl(self.model.orig[1])]}, {}))
        return fails

    def reference_tracks(self):
        """C08 in an unreshaped state: working == reference (bytes) == model (close)"""
        gx, gy = self.wv.get()
        rx, ry = self.wv.get_reference()
        fails = []
        if not (isinstance(rx, np.ndarray) and isinstance(ry, np.ndarray)):
            return [fail("reference-not-ndarray", None, {})]
        if fl(gx) != fl(rx) or fl(gy) != fl(ry):
            fails.append(fail("working-differs-from-reference", {"working": [gx, gy], "reference": [rx, ry]}, {}))
        if not _close_series((rx, ry), self.model.ref, self.model.err):
            fails.append(fail("reference-differs-from-transformed-original",
                              {"observed": [rx, ry], "expected": [fl(self.model.ref[0]), fl(self.model.ref[1])]}, {}))
        if not _close_series((gx, gy), self.model.w, self.model.err):
            fails.append(fail("working-differs-from-transformed-original",
                              {"observed": [gx, gy], "expected": [fl(self.model.w[0]), fl(self.model.w[1])]}, {}))
        return fails

    def reference_model_ok(self):
        rx, ry = self.wv.get_reference()
        if not _close_series((rx, ry), self.model.ref, self.model.err):
            return [fail("reference-differs-from-model", {"observed": [rx, ry], "expected": [fl(self.model.ref[0]), fl(self.model.ref[1])]}, {})]
        return []


def _close_series(obs, model, err=(0.0, 0.0)):
    try:
        ox, oy = fl(obs[0]), fl(obs[1])
    except Exception:
        return False
    mx, my = fl(model[0]), fl(model[1])
    if len(ox) != len(mx) or len(oy) != len(my):
        return False
    sx = max([1.0] + [abs(v) for v in mx])
    sy = max([1.0] + [abs(v) for v in my])
    return all(abs(a - b) <= 1e-9 * sx + 8 * err[0] for a, b in zip(ox, mx)) and all(abs(a - b) <= 1e-9 * sy + 8 * err[1] for a, b in zip(oy, my))


def tag(fails, op, history):
    out = []
    for f in fails:
        k = dict(f.get("key") or {})
        k["op"] = op[0] if op else "init"
        d = f.get("detail")
        out.append({"clause": f["clause"], "detail": d, "key": k})
    return out
