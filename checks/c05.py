"""C05 - window strategies never overshoot and keep a plateau at the average (E1)."""
import itertools
from fractions import Fraction as F

import numpy as np

from mc import alphabets as A
from mc.harness import kind, fail, judge
from mc.harness import replay as _replay
from checks import rfacommon as RC
from checks import windowcommon as W

PROPERTY = "C05"
PREFIX = "C05"
RULE = ("y in V^5 = {0,1,2,5}^5 (every tie pattern; {0,1,3}^5 for the exponential strategies in quick) x x-patterns "
        "(uniform + non-uniform) x n x window alphabet (alpha / explicit a) x beta x exponent x adaptive smoothing x 4 "
        "window strategies, judged by output-only invariants; plus piecewise-constant / cubic-spline / constant-series "
        "clauses. Signature = (strategy, n, rounded output); non-trivial = the output is not constant")
ASSUMPTIONS = ["tolerance 1e-9 relative to max(1,|y|)", "parameters outside the dyadic alphabets are not covered",
               "known finding K1: the monotone clause fails for exponent 1/10 (documented blend is non-monotone)"]
ANCHORS = {"rfa.py": [(240, 248), (404, 460), (272, 274), (485, 492), (614, 624)], "funfit.py": [(7, 196)]}
FORMS_HARNESSES = "all"
FORMS_SKIP_QUICK = ("long-series",)   # long inputs under every form: thorough tier only (cost)
EXPLANATION = "output invariants evaluated on every element of a bounded input/configuration lattice"


def bounds(tier, seed):
    q = tier == "quick"
    return {"y": "V^5 (lin), {0,1,3}^5 (exp)" if q else "V^5 and V^6 slices", "x_patterns": 2 if q else 3,
            "n": [2, 3, 5, 8] if q else [2, 3, 5, 8, 16, 64], "exps": [float(e) for e in RC.EXPS]}


def replay(case):
    if case.get("kind") in ("window", "window-long"):
        case = dict(case, which="C05")
        return W.only(PREFIX, _replay(case))
    return _replay(case)


def _judge(ctx, case):
    case = dict(case, kind="window", which="C05")
    fails, sig = W.check_window(case)
    ctx.call(1)
    ctx.bulk(1)
    for f in W.only(PREFIX, fails):
        ctx.fail(f["clause"], case, f.get("detail"), f.get("key"))
    if sig is not None:
        ctx.outcome(sig[:3], nontrivial=len(set(sig[2])) > 1)


@kind("simple-strategies")
def check_simple(case):
    x, y, n = case["x"], case["y"], case["n"]
    fails = []
    exp = [v for v in y[:-1] for _ in range(n)] + [y[-1]]
    sc = max(1.0, max(abs(float(v)) for v in y))
    for st in ("pconst", "spline"):
        obj = RC.cls(st)(np.array(x, dtype=float), np.array(y, dtype=float), n)
        for call in (1, 2):
            xs, ys = obj.rfa()
            if st == "pconst" and [float(v) for v in ys] != [float(v) for v in exp]:
                fails.append(fail("piecewise-constant-not-exact", {"call": call, "got": ys, "expected": exp}, {"strategy": "pconst", "call": call}))
            if st == "spline" and any(abs(float(a) - float(b)) > 1e-9 * sc for a, b in zip(ys[::n], y)):
                fails.append(fail("spline-misses-original-point", {"call": call, "got": ys[::n], "expected": y}, {"strategy": "spline", "call": call}))
            # the caller owns what it was handed: edit it in place, then ask the same object again
            try:
                ys += 3.0
                xs -= 0.5
            except Exception:
                pass
            if fails:
                break
    return fails, (len(x), n, tuple(y))


@kind("constant-series")
def check_constant(case):
    x, c, n, st, p = case["x"], case["c"], case["n"], case["strategy"], case["p"]
    xs, ys = RC.run(st, x, [c] * len(x), n, p)
    if any(abs(float(v) - c) > 1e-9 * max(1.0, abs(c)) for v in ys):
        return [fail("constant-not-preserved", {"got": ys, "c": c}, {"strategy": st})], None
    return [], (st, len(x), n, c)


def harnesses(tier, seed):
    quick = tier == "quick"
    xpats = [W.XPATTERNS[0], W.XPATTERNS[1 + seed % 3]] if quick else W.XPATTERNS[:3]
    ns = [2, 3, 5, 8] if quick else [2, 3, 5, 8, 16, 64]
    ys_lin = list(itertools.product(A.V, repeat=5))
    ys_exp = list(itertools.product((0, 1, 3), repeat=5)) if quick else ys_lin

    def psets(st, n):
        if quick:
            al = [F(1, 2), F(3, 4), F(1)]
            ps = RC.param_sets(st, n, alphas=al, betas=[F(0), F(1, 2), F(1)], exps=[F(1, 10), F(1, 2), 2, 4],
                               smooths=[F(1, 2), 1, 3], explicit_a=False)
            ps += [dict(q) for q in RC.param_sets(st, n, alphas=[], betas=[F(1, 4)], exps=[1, 3], smooths=[1, 3])]
            # thin the big products deterministically (every value of every parameter still occurs with
            # every strategy and n; the full product is the thorough tier)
            if st == "expada":
                ps = ps[seed % 3::3]
            return ps
        return RC.param_sets(st, n)

    def body(ctx):
        st = ctx.choose(RC.WINDOW, "strategy")
        xp = ctx.choose(xpats, "x")
        n = ctx.choose(ns, "n")
        ps = psets(st, n)
        p = ctx.choose(ps, "params")
        ys = ys_lin if st.startswith("lin") else ys_exp
        for y in ys:
            yi = sum(y)
            _judge(ctx, {"strategy": st, "x": list(xp), "y": list(y), "n": n, "p": RC.pkey(p),
                         "y_off": float(2 ** 40) if yi % 7 == 3 else 0, "twice": yi % 5 == 1,
                         "x_img": (None, None, "tiny", None, "jitter", None)[yi % 6], "poison": yi % 4 == 2})
        if n == 5 and xp == W.XPATTERNS[0] and st == "expfix" and p.get("exp") == 2:
            ctx.sample({"strategy": st, "x": list(xp), "n": n, "p": RC.pkey(p), "y": "all of the value lattice ^5"})

    def body6(ctx):
        # six-point series: a slice of V^6 (two interior intervals with two neighbours on each side)
        st = ctx.choose(RC.WINDOW, "strategy")
        xp = ctx.choose(W.XPATTERNS6[:2] if quick else W.XPATTERNS6, "x")
        n = ctx.choose([4] if quick else [3, 4, 16], "n")
        p = ctx.choose(RC.param_sets(st, n, alphas=[F(1)], betas=[F(1, 2)], exps=[2], smooths=[1], explicit_a=False)
                       if quick else RC.param_sets(st, n, betas=[F(1, 2)], exps=[F(1, 2), 2], smooths=[1, 3]), "params")
        for y in itertools.product((0, 1, 3), repeat=6) if quick else itertools.product(A.V, repeat=6):
            _judge(ctx, {"strategy": st, "x": list(xp), "y": list(y), "n": n, "p": RC.pkey(p)})

    def simple_body(ctx):
        g = ctx.choose([g for m in (2, 3, 4, 5) for g in A.grids(6, m)], "grid")
        n = ctx.choose([2, 3, 5, 16], "n")
        img = ctx.choose([None, "tiny", "jitter"], "x-image")
        for y in itertools.product(A.VPM, repeat=len(g)):
            judge(ctx, check_simple, {"x": A.ximage(g, img), "y": list(y), "n": n}, calls=2, bulk=True)

    def const_body(ctx):
        st = ctx.choose(RC.STRATS, "strategy")
        g = ctx.choose([g for m in (2, 3, 5) for g in A.grids(5, m)], "grid")
        n = ctx.choose([2, 3, 8], "n")
        for p in RC.param_sets(st, n, betas=[F(0), F(1, 2), F(1)], exps=[F(1, 10), 2], smooths=[F(1, 2), 1]):
            for c in (0.0, 1.0, -2.5, 1e6):
                judge(ctx, check_constant, {"x": list(g), "c": c, "n": n, "strategy": st, "p": RC.pkey(p)}, bulk=True)

    lsizes = W.long_sizes(quick)

    def long_body(ctx):
        st = ctx.choose(RC.WINDOW, "strategy")
        gk = ctx.choose(["uniform", "gaps", "late-gap"], "grid")
        n = ctx.choose([2, 5, 12] if quick else [2, 5, 12, 33], "n")
        yp = ctx.choose(["saw", "steps"], "y")
        ps = RC.param_sets(st, n, alphas=[F(1, 2), F(1)], betas=[F(1, 2)], exps=[2], smooths=[1], explicit_a=False)
        for m in lsizes:
            if m * n > (6000 if quick else 60000):
                continue
            for p in ps:
                case = {"kind": "window-long", "which": "C05", "len": m, "grid": gk, "ypattern": yp, "strategy": st, "n": n, "p": RC.pkey(p)}
                fails, sig = W.check_window_long(case)
                ctx.call(1)
                ctx.bulk(1)
                for f in W.only(PREFIX, fails):
                    ctx.fail(f["clause"], case, f.get("detail"), f.get("key"))
                if sig is not None:
                    ctx.outcome(sig[:3])

    return [W.every_n_harness("C05", PREFIX, quick), W.derived_threshold_harness("C05", PREFIX, quick), {"name": "long-series", "body": long_body,
             "bound_text": "every length 3..%d, 2^k+1 and around every integer constant of the code up to %d" % (40 if quick else 72, lsizes[-1])},
            {"name": "window-invariants", "body": body}, {"name": "window-invariants-6pt", "body": body6},
            {"name": "pconst+spline", "body": simple_body}, {"name": "constant-series", "body": const_body}]
