"""C02 - recreate + match preserves every original average (averaging round trip) (E1)."""
import itertools
import math
from fractions import Fraction as F

import numpy as np

from mc import alphabets as A
from mc.harness import kind, fail, judge, replay  # noqa: F401
from checks import rfacommon as RC

PROPERTY = "C02"
RULE = ("series of 2..5 points (all grids G(8,m) for small m, value vectors from V^m or a spanning set) and structured "
        "series up to 60 points x 6 strategies x parameter alphabets x n x both target rules x append step "
        "{none, append(False), append(True)} through the Weaver, plus all 19 bundled datasets; oracle: the mean of the "
        "result over every original interval under the target rule equals the original average, and process.average "
        "returns the original abscissae bit for bit. Signature = (strategy, m, n, rule, append, rounded means); "
        "non-trivial = matching displaced at least one sample")
ASSUMPTIONS = ["tolerance 1e-9 relative to max|y| (series also tried on a 2.5e6 baseline and at magnitude 1e-9, and with an abscissa equal to 0.0 inside the grid)", "default fixed points (closest sample to each reference abscissa)",
               "the last value of a series that was not extended by append_one_sample is an end point, not an interval average"]
ANCHORS = {"rfa.py": [(70, 90)], "weaver.py": [(73, 76), (470, 514)], "match.py": [(105, 110)], "process.py": [(300, 321)]}
FORMS_HARNESSES = "all"
EXPLANATION = "round-trip oracle evaluated on every element of a bounded input/configuration lattice"

DATASETS = ["audio", "cloud", "file_sharing", "fixed_social_media", "gaming", "marketplace", "measurements", "messaging",
            "mobile_messaging", "mobile_social_media", "mobile_video", "mobile_youtube", "mobile_zoom", "snapchat",
            "social_networking", "tiktok", "video_streaming", "vpn_and_security", "web"]


def bounds(tier, seed):
    q = tier == "quick"
    return {"m": "2..5 (+25 structured)" if q else "2..5 (+10,25,60 structured)", "n": [2, 3, 5, 16] if q else [2, 3, 5, 16, 64],
            "append": ["none", False, True], "datasets": 19}


@kind("roundtrip")
def check_roundtrip(case):
    from traffic_weaver import Weaver
    from traffic_weaver.process import average
    st, n, p, rule, app = case["strategy"], case["n"], case["p"], case["rule"], case["append"]
    if "dataset" in case:
        from traffic_weaver.datasets import load_dataset
        x, y = load_dataset("sandvine_" + case["dataset"], unpack_dataset_columns=True)
        x, y = [float(v) for v in x], [float(v) for v in y]
    else:
        x, y = [float(v) for v in case["x"]], [float(v) for v in case["y"]]
    x = [v + case.get("x_off", 0.0) for v in x]          # -2: an abscissa equal to 0.0 inside the grid
    x = A.ximage(x, case.get("x_img"))                   # tiny spacings / a near-uniform grid
    if case.get("scribble"):
        # history: an earlier recreation of the same data whose returned arrays the caller then edited in place
        xs0, ys0 = RC.cls("pconst")(np.array(x), np.array(y), n).rfa()
        try:
            xs0 *= 3600.0
            ys0 += 100.0
        except Exception:
            pass
    ysc = case.get("y_scale", 1.0)                       # same shape on a large baseline / at a tiny magnitude
    if ysc != 1.0:
        y = [v + ysc for v in y] if ysc > 1 else [v * ysc for v in y]
    key = {"strategy": st, "rule": rule, "append": app}
    ax, ay = np.array(x), np.array(y)
    kx, ky = ax.copy(), ay.copy()
    try:
        wv = Weaver(ax, ay)
        if app != "none":
            wv.append_one_sample(make_periodic=bool(app))
        wv.recreate_from_average(n, rfa_class=RC.cls(st), **RC.kwargs_for(st, p))
        pre = np.array(wv.get()[1], dtype=float).copy()
        wv.integral_match(target_function_integral_method=rule)
        xs, zs = wv.get()
    except Exception as e:  # noqa
        return [fail("raised", {"exception": repr(e)}, dict(key, exc=type(e).__name__))], None
    fails = []
    # original intervals and their averages
    if app == "none":
        ox, oy = x, y[:-1]
    else:
        ox = x + [2 * x[-1] - x[-2]]
        oy = y
    m1 = len(ox) - 1
    xs = np.asarray(xs, dtype=float)
    zs = np.asarray(zs, dtype=float)
    if len(xs) != m1 * n + 1 or len(zs) != len(xs):
        return [fail("length", {"len": [len(xs), len(zs)], "expected": m1 * n + 1}, key)], None
    sc = max(max(abs(v) for v in y), 1e-300)     # "up to rounding": relative to the magnitude of the data
    means = []
    for k in range(m1):
        seg_x = [float(v) for v in xs[k * n:(k + 1) * n + 1]]
        seg_z = [float(v) for v in zs[k * n:(k + 1) * n + 1]]
        if rule == "rectangle":
            integ = math.fsum(seg_z[i] * (seg_x[i + 1] - seg_x[i]) for i in range(n))
        else:
            integ = math.fsum((seg_z[i] + seg_z[i + 1]) / 2 * (seg_x[i + 1] - seg_x[i]) for i in range(n))
        mean = integ / (seg_x[-1] - seg_x[0])
        means.append(mean)
        if abs(mean - oy[k]) > 1e-9 * sc:
            fails.append(fail("interval-mean", {"interval": k, "observed": mean, "expected": oy[k]}, key))
            break
    if rule == "rectangle" and not fails:
        rx, ry = average(xs, zs, n)
        if np.asarray(rx, dtype=float)[:m1 + 1].tobytes() != np.array(ox, dtype=float).tobytes():
            fails.append(fail("average-abscissae", {"observed": rx, "expected": ox}, key))
        if any(abs(float(a) - b) > 1e-9 * sc for a, b in zip(ry[:m1], oy)):
            fails.append(fail("average-values", {"observed": ry, "expected": oy}, key))
    if not (A.same_bytes(ax, kx) and A.same_bytes(ay, ky)):
        fails.append(fail("caller-arrays-modified", None, key))
    moved = bool(np.any(pre != zs))
    return fails, (st, len(x), n, rule, app, tuple(round(v, 9) for v in means), moved)


MATCH_HIST_OPS = [("recreate", "linfix", 2), ("recreate", "pconst", 3), ("recreate", "expada", 2), ("restore_original",),
                  ("truncate_by_value", "absA"), ("truncate_by_value", "absB"), ("truncate_by_index", 1, None), ("append", True),
                  ("repeat", 2), ("shift_x", 1.0), ("scale_y", 2.0), ("normalize_x", 0.0, 1.0), ("interpolate_n", 7, "linear")]


@kind("match-in-state")
def check_match_in_state(case):
    """Weaver.integral_match in ANY state is the matching function applied to the current working series
    and the current reference (whose correctness C01 / C03 decide): same bytes, and the interval means of
    the result equal the reference averages between the matched reference points"""
    import copy
    import warnings
    from checks import weaverops as WO
    from mc.refmodel import match as RM
    from traffic_weaver.match import integral_matching_reference_stretch
    r = WO.Runner(WO.INITS[case["init"]])
    for op in case["ops"]:
        op = tuple(op)
        if r.concretize(op) is None:
            return [], ("skipped",)
        r.apply(op)
    gx, gy = r.wv.get()
    rx, ry = r.wv.get_reference()
    sel = RM.fixed_selection(WO.fl(gx), WO.fl(rx), "search", "closest")
    if sel[0] != "ok":
        return [], ("not-admissible",)
    fails = []
    key = {"path": "weaver-history", "rule": case["rule"]}
    with warnings.catch_warnings():
        warnings.simplefilter("ignore")
        try:
            z = copy.deepcopy(r.wv).integral_match(target_function_integral_method=case["rule"]).get()[1]
        except Exception as e:  # noqa
            return [fail("raised", {"exception": repr(e)}, dict(key, exc=type(e).__name__))], None
        ref = integral_matching_reference_stretch(np.array(gx, dtype=float), np.array(gy, dtype=float), np.array(rx, dtype=float),
                                                  np.array(ry, dtype=float), target_function_integral_method=case["rule"])
    z = np.asarray(z, dtype=float)
    if z.shape != ref.shape or z.tobytes() != np.asarray(ref, dtype=float).tobytes():
        fails.append(fail("weaver-match-differs-from-function-on-current-state", {"observed": z, "function": ref, "fixed": sel[1]}, key))
    return fails, (case["init"], tuple(tuple(o) for o in case["ops"]), case["rule"])


def _series(quick, seed):
    out = []
    for g in A.grids(8, 2):
        out += [(g, y) for y in itertools.product(A.V, repeat=2)]
    g3 = A.grids(8, 3)
    for g in g3:
        ys = itertools.product(A.V, repeat=3) if not quick else A.spanning_values(3)
        out += [(g, y) for y in ys]
    g4 = A.grids(6, 4)
    for g in g4:
        ys = itertools.product((0, 1, 5), repeat=4) if not quick else A.spanning_values(4)[::1]
        out += [(g, y) for y in ys]
    for g in [(0, 1, 2, 3, 4), (0, 1, 3, 4, 8), (0, 2, 3, 7, 8), (0, 3, 4, 5, 9)]:
        ys = itertools.product(A.V, repeat=5) if not quick else A.spanning_values(5) + [(0, 0, 1, 1, 5), (2, 2, 2, 0, 0)]
        out += [(g, y) for y in ys]
    return out


def harnesses(tier, seed):
    quick = tier == "quick"
    series = _series(quick, seed)
    ns = [2, 3, 5, 16] if quick else [2, 3, 5, 16, 64]

    def psets(st, n):
        if st not in RC.WINDOW:
            return [{}]
        if quick:
            ps = RC.param_sets(st, n, alphas=[F(1, 2), F(1)], betas=[F(1, 2)], exps=[2], smooths=[1], explicit_a=False)
            ps += RC.param_sets(st, n, alphas=[F(3, 4)], betas=[F(0), F(1)], exps=[F(1, 2), 3], smooths=[3], explicit_a=False)[seed % 2::2][:1]
            return ps
        # thorough: ~8 M cases in total (sized for ~10 min on 16 cores)
        ps = RC.param_sets(st, n, alphas=[F(1, 4), F(1, 2), F(1)], betas=[F(0), F(1)], exps=[F(1, 2), 3], smooths=[F(1, 2), 3], explicit_a=False)
        ps += [q for q in RC.param_sets(st, n, alphas=[], betas=[F(1, 2)], exps=[2], smooths=[1]) if q.get("a") in (0, n)]
        return ps

    def body(ctx):
        si = ctx.choose(len(series), "series")
        g, y = series[si]
        st = ctx.choose(RC.STRATS, "strategy")
        x = [float(v) for v in g]
        k = si
        for n in ns:
            for p in psets(st, n):
                for rule in ("trapezoid", "rectangle"):
                    for app in ("none", False, True):
                        k += 1
                        judge(ctx, check_roundtrip, {"x": x, "y": list(y), "strategy": st, "n": n, "p": RC.pkey(p),
                                                     "rule": rule, "append": app, "x_off": (0.0, -2.0)[k % 2],
                                                     "y_scale": (1.0, 1.0, 2.5e6, 1.0, 1e-9)[k % 5],
                                                     "x_img": (None, "tiny", None, "jitter")[(k // 2) % 4],
                                                     "scribble": k % 7 == 3}, calls=3, bulk=True,
                              nontrivial=lambda s: s[-1])
        if len(g) == 4 and st == "expada" and si % 50 == 0:
            ctx.sample({"x": x, "y": list(y), "strategy": st, "n": ns})

    def long_body(ctx):
        m = ctx.choose([25] if quick else [10, 25, 60], "m")
        st = ctx.choose(RC.STRATS, "strategy")
        pat = ctx.choose(2, "xpattern")
        x = [[float(i) for i in range(m)], [0.5 * i + (i % 3) * 0.125 for i in range(m)]][pat]
        for y in A.spanning_values(m)[:: (6 if quick else 1)]:
            for n in ([2, 16] if quick else [2, 5, 64]):
                for p in psets(st, n)[:2]:
                    for rule in ("trapezoid", "rectangle"):
                        judge(ctx, check_roundtrip, {"x": x, "y": list(y), "strategy": st, "n": n, "p": RC.pkey(p),
                                                     "rule": rule, "append": True}, calls=3, bulk=True, nontrivial=lambda s: s[-1])

    # oversampled lengths that cross powers of two and every integer constant of the numeric code: (m, n) with
    # (m-1)*n+1 just above the threshold
    thresholds = sorted(set([64, 128, 256, 512, 1024] + [c for c in A.code_constants(lo=16, hi=(2100 if quick else 70000), exclude="datasets")])
                        | set(A.thresholds(9000 if quick else 70000)))
    size_pairs = sorted({(c // n + 2, n) for c in thresholds for n in (2, 7, 18, 40) if c // n + 2 >= 3}
                        | {(2 * c // n + 2, n) for c in thresholds for n in (7, 18) if c <= 1100})

    def sizes_body(ctx):
        m, n = ctx.choose(size_pairs, "m,n")
        st = ctx.choose(RC.STRATS, "strategy")
        pat = ctx.choose(2, "xpattern")
        x = [[float(i) for i in range(m)], [0.5 * i + (i % 3) * 0.125 for i in range(m)]][pat]
        y = [float((3 * i) % 7 - 2) + 0.25 * (i % 2) for i in range(m)]
        for p in psets(st, n)[:1]:
            for rule in ("trapezoid", "rectangle"):
                for app in ("none", True):
                    judge(ctx, check_roundtrip, {"x": x, "y": y, "strategy": st, "n": n, "p": RC.pkey(p), "rule": rule, "append": app},
                          calls=3, bulk=True, nontrivial=lambda s_: s_[-1])

    def data_body(ctx):
        d = ctx.choose(DATASETS, "dataset")
        st = ctx.choose(RC.STRATS, "strategy")
        for n in ([2, 10] if quick else [2, 5, 10, 64]):
            for p in psets(st, n)[:2]:
                for rule in ("trapezoid", "rectangle"):
                    for app in (("none", True) if quick else ("none", False, True)):
                        judge(ctx, check_roundtrip, {"dataset": d, "strategy": st, "n": n, "p": RC.pkey(p), "rule": rule,
                                                     "append": app}, calls=3, bulk=True, nontrivial=lambda s: s[-1])
        if d == "mobile_video" and st == "expada":
            ctx.sample({"dataset": "sandvine_" + d, "strategy": st})

    def match_hist_body(ctx):
        ii = ctx.choose([0, 1, 3], "init")
        ops = [ctx.choose(MATCH_HIST_OPS, "op%d" % d) for d in range(3 if quick else 4)]
        for rule in ("trapezoid", "rectangle"):
            judge(ctx, check_match_in_state, {"init": ii, "ops": [list(o) for o in ops], "rule": rule}, calls=2,
                  nontrivial=lambda sg: sg[0] not in ("skipped", "not-admissible"))

    return [{"name": "match-in-every-state", "body": match_hist_body}, {"name": "small-series", "body": body}, {"name": "structured-long", "body": long_body},
            {"name": "oversampled-length-across-thresholds", "body": sizes_body,
             "bound_text": "(m, n) with (m-1)*n+1 just above %s" % thresholds},
            {"name": "bundled-datasets", "body": data_body}]
