"""C08 - reference series tracks domain transformations through any history (E2)."""
import copy
import math
import warnings

import numpy as np

from mc.harness import fail, kind
from checks import rfacommon as RC
from checks import weaverops as WO

PROPERTY = "C08"
RULE = ("all sequences of the 20 concrete domain operations (10 kinds: append F/T, shift_x +1/-2.5/+5e6, shift_y, scale_x/y, "
        "normalize_x/y, repeat 2/3, truncate_by_value x4, truncate_by_index x2) up to the depth bound from 5 initial series; in every "
        "state: working == reference (bytes) == exact model of the transformed original; each reshaping operation once "
        "(reference bytes-unchanged); recreate+match tail against the transformed averages; shift/scale commuting with "
        "the pipeline. Signature = digest of the canonical state; non-trivial = state differs from the initial one")
ASSUMPTIONS = ["truncation bounds are chosen strictly between samples (on-sample bounds are C11's subject)",
               "model in exact rationals; comparison 1e-9 relative plus a running bound on the rounding error of each axis (ulp of the largest magnitude reached, propagated through scalings and normalisations)", "length cap %d samples" % WO.LEN_CAP,
               "quick: the tail runs one (strategy, n, rule) per state, rotating over all 24 combinations; thorough: all"]
ANCHORS = {"weaver.py": [(64, 79), (273, 276), (510, 514), (580, 582), (753, 756), (778, 781), (807, 809), (835, 837),
                         (866, 869), (898, 901), (943, 948), (984, 988)]}
FORMS_HARNESSES = "all"
FORMS_SKIP = ("deep-narrow-histories",)
FORMS_WIDTH = {"domain-histories": 4, "missing-last-sample-cut-off-first": 4}
EXPLANATION = "exhaustive exploration of operation histories on the live object against a functional model"

TAILS = [(st, n, rule) for st in RC.STRATS for n in (2, 5) for rule in ("trapezoid", "rectangle")]
RESHAPES = ["recreate", "integral_match", "interpolate", "smooth", "trend", "noise"]
COMMUTE = [("shift_x", 1.0), ("shift_y", 2.0), ("scale_x", 2.0), ("scale_y", 0.5)]


def bounds(tier, seed):
    return {"depth": 3 if tier == "quick" else 4, "initial_series": 5, "concrete_ops": len(WO.DOMAIN_OPS),
            "tail": "1 rotating of 24 per state" if tier == "quick" else "all 24 per state (depth<=3)"}


def _clone(wv):
    return copy.deepcopy(wv)


def check_reshape(r, which):
    """a reshaping operation leaves get_reference() bytes-unchanged"""
    wv = _clone(r.wv)
    n = len(wv)
    fails = []
    with warnings.catch_warnings():
        warnings.simplefilter("ignore")
        with WO.NoiseSeam():
            try:
                if which in ("recreate", "integral_match"):
                    wv.recreate_from_average(2, rfa_class=RC.cls("linfix"))
                before = WO.observables(wv)[2:4]
                if which == "recreate":
                    pass
                elif which == "integral_match":
                    before = WO.observables(wv)[2:4]
                    wv.integral_match()
                elif which == "interpolate":
                    before = WO.observables(wv)[2:4]
                    wv.interpolate(n=2 * n + 1, method="linear")
                elif which == "smooth":
                    if n < 4:
                        return []
                    wv.smooth(0.5)
                elif which == "trend":
                    wv.trend(lambda t: 0.5 * t + 1)
                elif which == "noise":
                    wv.noise(10.0)
                if which == "recreate":
                    before = WO.observables(r.wv)[2:4]
            except Exception as e:  # noqa
                return [fail("raised", {"exception": repr(e), "reshape": which}, {"reshape": which, "exc": type(e).__name__})]
    after = WO.observables(wv)[2:4]
    if after != before:
        fails.append(fail("reshaping-altered-reference", {"reshape": which, "reference_after": wv.get_reference()}, {"reshape": which}))
    return fails


def _means(xs, zs, n, rule, m1):
    out = []
    for k in range(m1):
        sx = [float(v) for v in xs[k * n:(k + 1) * n + 1]]
        sz = [float(v) for v in zs[k * n:(k + 1) * n + 1]]
        if rule == "rectangle":
            integ = math.fsum(sz[i] * (sx[i + 1] - sx[i]) for i in range(n))
        else:
            integ = math.fsum((sz[i] + sz[i + 1]) / 2 * (sx[i + 1] - sx[i]) for i in range(n))
        out.append(integ / (sx[-1] - sx[0]))
    return out


def check_tail(r, st, n, rule):
    """recreate + match after the history reproduces the TRANSFORMED averages (C02 oracle)"""
    wv = _clone(r.wv)
    key = {"strategy": st, "rule": rule}
    mx, my = WO.fl(r.model.ref[0]), WO.fl(r.model.ref[1])
    if (len(mx) - 1) * n + 1 > 4 * WO.LEN_CAP:
        return []
    with warnings.catch_warnings():
        warnings.simplefilter("ignore")
        try:
            wv.recreate_from_average(n, rfa_class=RC.cls(st))
            wv.integral_match(target_function_integral_method=rule)
        except Exception as e:  # noqa
            return [fail("tail-raised", {"exception": repr(e)}, dict(key, exc=type(e).__name__))]
    xs, zs = wv.get()
    m1 = len(mx) - 1
    if len(xs) != m1 * n + 1:
        return [fail("tail-length", {"observed": len(xs), "expected": m1 * n + 1}, key)]
    sc = max(1.0, max(abs(v) for v in my))
    means = _means(xs, zs, n, rule, m1)
    # conditioning: abscissae of large magnitude carry one ulp of rounding, which the integrals divide by the sample spacing
    xsf = [float(v) for v in xs]
    cond = math.ulp(max(abs(xsf[0]), abs(xsf[-1]))) / min(b - a for a, b in zip(xsf[:-1], xsf[1:]))
    for k in range(m1):
        if abs(means[k] - my[k]) > (1e-9 + 64 * cond) * sc:
            return [fail("tail-interval-mean", {"interval": k, "observed": means[k], "expected_transformed_average": my[k]}, key)]
    return []


def check_commute(r, op, st):
    """shifting / scaling commutes with the recreate + match pipeline"""
    key = {"commute_op": op[0], "strategy": st}
    a, b = _clone(r.wv), _clone(r.wv)
    if (len(a) - 1) * 2 + 1 > 4 * WO.LEN_CAP:
        return []
    with warnings.catch_warnings():
        warnings.simplefilter("ignore")
        try:
            getattr(a, op[0])(op[1])
            a.recreate_from_average(2, rfa_class=RC.cls(st)).integral_match()
            b.recreate_from_average(2, rfa_class=RC.cls(st)).integral_match()
            getattr(b, op[0])(op[1])
        except Exception as e:  # noqa
            return [fail("commute-raised", {"exception": repr(e)}, dict(key, exc=type(e).__name__))]
    for nm, (pa, pb) in (("working", (a.get(), b.get())), ("reference", (a.get_reference(), b.get_reference()))):
        for u, v in zip(pa, pb):
            u, v = np.asarray(u, dtype=float), np.asarray(v, dtype=float)
            sc = max(1.0, float(np.max(np.abs(u)))) if u.size else 1.0
            ax_ = np.asarray(pa[0], dtype=float)
            cond = math.ulp(float(np.max(np.abs(ax_)))) / float(np.min(np.diff(ax_))) if ax_.size > 1 else 0.0
            if u.shape != v.shape or np.any(np.abs(u - v) > (1e-9 + 64 * cond) * sc):
                return [fail("does-not-commute-with-pipeline", {"series": nm, "op_first": [pa[0], pa[1]], "op_last": [pb[0], pb[1]]},
                             dict(key, series=nm))]
    return []


def state_checks(r, node_index, tier, op):
    fails = []
    fails += r.reference_tracks()
    for which in RESHAPES:
        fails += check_reshape(r, which)
    if tier == "quick":
        tails = [TAILS[node_index % len(TAILS)]]
        comm = [(COMMUTE[node_index % 4], RC.STRATS[(node_index // 4) % 6])]
    elif tier == "thorough-deep":
        tails = [TAILS[(node_index + j * 7) % len(TAILS)] for j in range(3)]
        comm = [(COMMUTE[node_index % 4], RC.STRATS[(node_index // 4) % 6])]
    else:
        tails = TAILS
        comm = [(c, RC.STRATS[(node_index + i) % 6]) for i, c in enumerate(COMMUTE)]
    for (st, n, rule) in tails:
        fails += check_tail(r, st, n, rule)
    for (c, st) in comm:
        fails += check_commute(r, c, st)
    return WO.tag(fails, op, r.history)


@kind("history-c08")
def check_history(case):
    """plain replay: rebuild the object, apply the history, run the state checks of the final state"""
    r = WO.Runner(WO.INITS[case["init"]])
    fails = []
    for i, op in enumerate(case["ops"]):
        op = tuple(op)
        if r.concretize(op) is None:
            return [fail("replay-precondition", {"op": op}, {})]
        try:
            r.apply(op)
        except Exception as e:  # noqa
            return WO.tag([fail("raised", {"exception": repr(e)}, {"exc": type(e).__name__})], op, r.history)
    last = tuple(case["ops"][-1]) if case["ops"] else None
    if case.get("tier") == "light":
        return WO.tag(r.reference_tracks(), last, r.history)
    return state_checks(r, case.get("node", 0), case.get("tier", "thorough"), last)


def replay(case):
    return check_history(case)


# ---- explicit-state exploration with merging (thorough): deeper histories -------------------------
def _expand_merged(item):
    """replay history on a fresh object; return (state key, enabled ops, failures)"""
    ii, hist = item
    r = WO.Runner(WO.INITS[ii])
    for op in hist:
        if r.concretize(op) is None:
            return None, [], []
        r.apply(op)
    obs = WO.observables(r.wv)
    from mc import engine as _e
    key = _e.sig_hash((ii if not hist else -1, WO.values_only(obs)))
    fails = WO.tag(r.reference_tracks() + check_reshape(r, "trend") + check_reshape(r, "recreate"), hist[-1] if hist else None, hist)
    return key, r.enabled(WO.DOMAIN_OPS), fails


def bfs_merged(max_depth, cap):
    """level-synchronous BFS over canonical observable states (bytes of working / reference /
    original values): two histories that lead to identical observables have identical futures,
    because every operation reads nothing else (x_scale / y_scale are write-only)."""
    from mc import engine as _e
    st = _e.Stats()
    seen = set()
    frontier = []
    for ii in range(5):
        key, en, fails = _expand_merged((ii, []))
        seen.add(key)
        frontier.append((ii, [], en))
    st.states = len(seen)
    depth = 0
    full_depth = 0
    while frontier and depth < max_depth:
        tasks = [(ii, h + [op]) for (ii, h, en) in frontier for op in en]
        res = _e.pmap("c08-bfs", _expand_merged, tasks, chunksize=max(1, len(tasks) // 512))
        nxt = []
        for (ii, h), (key, en, fails) in zip(tasks, res):
            st.transitions += 1
            st.executions += 1
            st.calls += len(h)
            for f in fails:
                case = {"kind": "history-c08", "init": ii, "ops": [list(o) for o in h], "tier": "quick", "node": 0}
                st.add_failure({"clause": f["clause"], "case": _e.jsonable(case), "detail": _e.jsonable(f.get("detail")),
                                "key": _e.jsonable(f.get("key")), "choices": None, "labels": None})
            if key is None or key in seen:
                continue
            seen.add(key)
            st.outcomes.add(key)
            st.nontrivial.add(key)
            nxt.append((ii, h, en))
        depth += 1
        st.states = len(seen)
        if len(seen) > cap:
            st.caps.append("merged BFS: state cap %d exceeded while expanding depth %d; depths <= %d are complete" % (cap, depth, depth))
            full_depth = depth
            frontier = []
            break
        full_depth = depth
        frontier = nxt
    st.max_depth = full_depth
    st.cases = st.executions
    st.counters["merged_bfs_states"] = len(seen)
    st.counters["merged_bfs_depth_complete"] = full_depth
    if frontier is not None and len(st.samples) < 2 and tasks:
        st.samples.append({"init": WO.INITS[tasks[-1][0]]["name"], "history": [list(o) for o in tasks[-1][1]]})
    return st


def harnesses(tier, seed):
    quick = tier == "quick"
    depth = 3 if quick else 4
    heavy_depth = 3

    def body(ctx):
        ii = ctx.choose(5, "init")
        r = WO.Runner(WO.INITS[ii])
        ops_done = []

        def node(op):
            if not ctx.fresh:
                return
            idx = len(ctx.choices) * 7 + sum((i + 1) * c for i, c in enumerate(ctx.choices)) + seed
            case = {"kind": "history-c08", "init": ii, "ops": [list(o) for o in ops_done], "node": idx, "tier": tier}
            if len(ops_done) <= heavy_depth:
                # thorough: every (strategy, n, rule) tail in states of depth <= 2, three rotating ones at depth 3
                fails = state_checks(r, idx, "thorough-deep" if (tier == "thorough" and len(ops_done) >= 3) else tier, op)
            else:
                fails = WO.tag(r.reference_tracks(), op, r.history)
            ctx.case(1)
            for f in fails:
                ctx.fail(f["clause"], case, f.get("detail"), f.get("key"))
            obs = WO.observables(r.wv)
            ctx.outcome(WO.values_only(obs), nontrivial=len(ops_done) > 0)
            if len(ops_done) == 2 and ii == 1 and idx % 97 == 0:
                ctx.sample({"init": WO.INITS[ii]["name"], "history": [list(o) for o in ops_done]})
        node(None)
        for d in range(depth):
            en = r.enabled(WO.DOMAIN_OPS)
            op = ctx.choose(en, "op%d" % d)
            try:
                r.apply(op)
            except Exception as e:  # noqa
                if ctx.fresh:
                    case = {"kind": "history-c08", "init": ii, "ops": [list(o) for o in ops_done + [op]], "tier": tier}
                    ctx.fail("raised", case, {"exception": repr(e)}, {"op": op[0], "exc": type(e).__name__})
                return
            ctx.call(1)
            ops_done.append(op)
            node(op)

    def nan_body(ctx):
        # a series whose last sample is missing (NaN): the first operation cuts it off, then every history of depth 2
        r = WO.Runner(WO.INITS[8])
        done = [("truncate_by_index", 0, -1)]
        try:
            r.apply(done[0])
            for d in range(2):
                en = r.enabled(WO.DOMAIN_OPS)
                op = ctx.choose(en, "op%d" % d)
                r.apply(op)
                done.append(op)
                ctx.call(1)
                if ctx.fresh:
                    case = {"kind": "history-c08", "init": 8, "ops": [list(o) for o in done], "tier": "light"}
                    for f in WO.tag(r.reference_tracks(), op, r.history):
                        ctx.fail(f["clause"], case, f.get("detail"), f.get("key"))
                    ctx.case(1)
                    ctx.outcome(WO.values_only(WO.observables(r.wv)[:4]))
        except Exception as e:  # noqa
            case = {"kind": "history-c08", "init": 8, "ops": [list(o) for o in done] + ([list(op)] if "op" in dir() else []), "tier": "light"}
            if ctx.fresh:
                ctx.fail("raised", case, {"exception": repr(e)}, {"exc": type(e).__name__})

    DEEP_OPS = [("append", False), ("shift_x", 1.0), ("shift_y", 2.0), ("scale_x", 2.0), ("scale_y", -1.0), ("normalize_x", 0.0, 1.0),
                ("normalize_y", 0.0, 10.0), ("repeat", 2), ("truncate_by_value", "ratioA"), ("truncate_by_index", 1, None),
                ("truncate_by_index", 0, -1)]
    deep_depth = 4 if quick else 5

    def deep_body(ctx):
        """one operation per kind, deeper: working == reference == model in every state of depth 4.. (shallower states
        are the subject of domain-histories)"""
        ii = ctx.choose([1, 0], "init")
        r = WO.Runner(WO.INITS[ii])
        done = []
        for d in range(deep_depth):
            en = r.enabled(DEEP_OPS)
            op = ctx.choose(en, "op%d" % d)
            try:
                r.apply(op)
            except Exception as e:  # noqa
                if ctx.fresh:
                    case = {"kind": "history-c08", "init": ii, "ops": [list(o) for o in done + [op]], "tier": "light"}
                    ctx.fail("raised", case, {"exception": repr(e)}, {"op": op[0], "exc": type(e).__name__})
                return
            ctx.call(1)
            done.append(op)
            if len(done) >= 4 and ctx.fresh:
                case = {"kind": "history-c08", "init": ii, "ops": [list(o) for o in done], "tier": "light"}
                for f in WO.tag(r.reference_tracks(), op, r.history):
                    ctx.fail(f["clause"], case, f.get("detail"), f.get("key"))
                ctx.case(1)
                ctx.outcome(WO.values_only(WO.observables(r.wv)[:4]))

    hs = [{"name": "deep-narrow-histories", "body": deep_body,
           "bound_text": "all histories over %d operations (one per kind) to depth %d" % (len(DEEP_OPS), deep_depth)},
          {"name": "domain-histories", "body": body, "bound_text": "all histories to depth %d" % depth},
          {"name": "missing-last-sample-cut-off-first", "body": nan_body, "bound_text": "truncate, then all histories of depth 2"}]
    if not quick:
        hs.append({"name": "merged-state-bfs", "run": (lambda: bfs_merged(8, 400000)),
                   "bound_text": "explicit-state BFS with merging, depth <= 8 or 400k states"})
    return hs
