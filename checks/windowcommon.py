"""Shared case checker of the four transition-window strategies.
C05 clauses: output-only invariants (bounds, plateau, monotone).  C06 clauses: agreement with the
docstring-derived per-sample reference model."""
import itertools
from fractions import Fraction as F

import numpy as np

from mc import alphabets as A
from mc.harness import kind, fail
from mc.refmodel import rfa as RR
from checks import rfacommon as RC

XPATTERNS = [(0, 1, 2, 3, 4), (0, 1, 3, 4, 8), (0, 2, 3, 7, 8), (0, 3, 4, 5, 9)]
XPATTERNS6 = [(0, 1, 2, 3, 4, 5), (0, 1, 3, 4, 8, 9), (0, 2, 3, 7, 8, 10), (0, 3, 4, 5, 9, 11)]


def _tol(Y):
    """comparison tolerance for recreated values: 1e-9 of the spread of the averages (the scale of
    every transition) plus the rounding the level of the data imposes (a few hundred ulp)"""
    import math
    spread = max(Y) - min(Y)
    level = max(abs(v) for v in Y)
    return 1e-9 * max(spread, 1e-300 if level == 0 else 0.0) + 256 * math.ulp(level if level else 1e-300) + (1e-9 if spread == 0 and level == 0 else 0.0)


def _hull_ok(v, a, b, eps):
    lo, hi = (a, b) if a <= b else (b, a)
    return lo - eps <= v <= hi + eps


def _monotone(seq, eps):
    up = all(q >= p - eps for p, q in zip(seq[:-1], seq[1:]))
    dn = all(q <= p + eps for p, q in zip(seq[:-1], seq[1:]))
    return up or dn


def c05_invariants(case, ys):
    """output-only invariants of the statement of C05 for the window strategies."""
    x, y, n, st, p = case["x"], case["y"], case["n"], case["strategy"], case["p"]
    m = len(x)
    a = RC.eff_a(n, p)
    key = {"strategy": st, "exp": p.get("exp"), "smooth": p.get("smooth")}
    fails = []
    z = [float(v) for v in ys]
    Y = [float(v) for v in y]
    eps = _tol(Y)
    import math
    _lvl = max(abs(v) for v in Y)
    peps = 4 * math.ulp(_lvl if _lvl else 1.0) + 1e-12 * (max(Y) - min(Y))
    for k in range(m - 1):
        seg = z[k * n:(k + 1) * n]
        nxt = z[(k + 1) * n]
        Yk = Y[k]
        Yl = Y[k - 1] if k > 0 else Y[0]
        Yr = Y[k + 1]
        # "differs from the interval's average": plateau samples are copies of the average, so membership is judged
        # to a few ulp of the level (not to the looser comparison tolerance, which at large levels would make
        # near-plateau transition samples look like plateau samples)
        dev = [i for i in range(n) if abs(seg[i] - Yk) > peps]
        plat = [i for i in range(n) if i not in dev]
        if not plat:
            fails.append(fail("C05:no-plateau", {"interval": k, "segment": seg, "average": Yk}, key))
            continue
        if len(dev) > a - 1:
            fails.append(fail("C05:plateau-too-short", {"interval": k, "deviating": len(dev), "a": a, "segment": seg}, key))
        p0, p1 = plat[0], plat[-1]
        if any(p0 < i < p1 for i in dev):
            fails.append(fail("C05:plateau-not-contiguous", {"interval": k, "segment": seg, "average": Yk}, key))
            continue
        left, right = seg[:p0], seg[p1 + 1:]
        if any(not _hull_ok(v, Yl, Yk, eps) for v in left):
            fails.append(fail("C05:overshoot", {"interval": k, "side": "left", "segment": seg, "neighbours": [Yl, Yk, Yr]}, key))
        if any(not _hull_ok(v, Yk, Yr, eps) for v in right):
            fails.append(fail("C05:overshoot", {"interval": k, "side": "right", "segment": seg, "neighbours": [Yl, Yk, Yr]}, key))
        if not _monotone(left + [Yk], eps):
            fails.append(fail("C05:monotone", {"interval": k, "side": "left", "segment": seg, "average": Yk}, key))
        if not _monotone([Yk] + right + [nxt], eps):
            fails.append(fail("C05:monotone", {"interval": k, "side": "right", "segment": seg + [nxt], "average": Yk}, key))
    if not _hull_ok(z[-1], Y[m - 2], Y[m - 1], eps):
        fails.append(fail("C05:overshoot", {"interval": "last-sample", "value": z[-1], "neighbours": [Y[m - 2], Y[m - 1]]}, key))
    return fails


def c06_reference(case, ys):
    """agreement with the docstring reference on every sample that does not depend on the
    (undocumented) geometry of the virtual interval beyond the last original point."""
    x, y, n, st, p = case["x"], case["y"], case["n"], case["strategy"], case["p"]
    m = len(x)
    a = RC.eff_a(n, p)
    key = {"strategy": st, "exp": p.get("exp")}
    beta = F(p.get("beta", F(1, 2))) if not isinstance(p.get("beta"), float) else F(p["beta"])
    e = p.get("exp", 2)
    if isinstance(e, float):
        e = int(e) if e == int(e) else F(e)
    smooth = p.get("smooth", 1)
    z = [float(v) for v in ys]
    tolv = _tol([float(v) for v in y])
    Yx = [F(v) for v in y]

    def cmp(ref, wins):
        # samples judged: everything except the last interval's right transition and the last sample
        ar_last = wins[m - 2][1]
        lim = (m - 2) * n + (n - ar_last) + 1 if m >= 2 else 0
        for i in range(lim):
            if abs(float(ref[i]) - z[i]) > tolv:
                return i
        return None

    exact = bool(case.get("exact"))
    ref, wins = RR.recreate(x, Yx, n, st, a, beta, e, smooth, exact=exact)
    bad = cmp(ref, wins)
    amb = []
    if bad is not None and st in ("linada", "expada"):
        aw = RR.adaptive_windows(Yx, a, smooth)
        amb = [(k, s) for k, w in enumerate(aw) for s, flag in ((0, w[2]), (1, w[3])) if flag]
        if amb:
            for r_ in range(1, len(amb) + 1):
                for pk in itertools.combinations(amb, r_):
                    alt = [[w[0], w[1]] for w in aw]
                    for (k, s) in pk:
                        alt[k][s] -= 1
                    ref2, wins2 = RR.recreate(x, Yx, n, st, a, beta, e, smooth, windows=[tuple(w) for w in alt], exact=exact)
                    if cmp(ref2, wins2) is None:
                        return [], True
    if bad is not None:
        k, i = divmod(bad, n)
        return [fail("C06:sample-differs-from-documented-shape",
                     {"interval": k, "sample": i, "observed": z[bad], "expected": float(ref[bad]), "windows": wins,
                      "a": a, "segment": z[k * n:(k + 1) * n + 1],
                      "expected_segment": [float(v) for v in ref[k * n:(k + 1) * n + 1]]}, key)], False
    return [], False


@kind("window")
def check_window(case):
    st = case["strategy"]
    p = case["p"]
    key = {"strategy": st}
    if case.get("x_img"):
        case = dict(case, x=A.ximage(case["x"], case["x_img"]), x_img=None)
    if case.get("poison"):
        # history: the uniform grid with the same length, end points and n was recreated just before
        xx = case["x"]
        alt = [xx[0] + (xx[-1] - xx[0]) * i / (len(xx) - 1) for i in range(len(xx))]
        if alt != list(xx):
            try:
                RC.cls(st)(np.array(alt, dtype=float), np.array(case["y"], dtype=float), case["n"], **RC.kwargs_for(st, p)).rfa()
            except Exception:
                pass
    if case.get("y_off"):
        # the same averages on a large exactly representable level (2^40): jumps are tiny relative to it
        case = dict(case, y=[float(v) + case["y_off"] for v in case["y"]], y_off=0)
    try:
        obj = RC.cls(st)(np.array(case["x"], dtype=float), np.array(case["y"], dtype=float), case["n"], **RC.kwargs_for(st, p))
        xs, ys = obj.rfa()
        if case.get("twice"):
            first = np.array(ys, copy=True)
            xs2, ys2 = obj.rfa()
            if not (np.array_equal(np.asarray(ys2), first) and np.array_equal(np.asarray(ys), first)):
                f = fail("second-rfa-call-differs", None, key)
                return [dict(f, clause="C05:second-rfa-call-differs"), dict(f, clause="C06:second-rfa-call-differs")], None
    except Exception as e:  # noqa
        f = fail("raised", {"exception": repr(e)}, dict(key, exc=type(e).__name__))
        return [dict(f, clause="C05:raised"), dict(f, clause="C06:raised")], None
    fails = []
    which = case.get("which", "both")
    ambiguous = False
    if which in ("both", "C05"):
        fails += c05_invariants(case, ys)
    if which in ("both", "C06") and p.get("smooth", 1) == 1:
        f6, ambiguous = c06_reference(case, ys)
        fails += f6
    z = [float(v) for v in ys]
    return fails, (st, case["n"], tuple(round(v, 9) for v in z), ambiguous)


@kind("window-long")
def check_window_long(case):
    """the same clauses on long series: `len` points on an exactly representable grid"""
    from mc.harness import shrink
    m = case["len"]
    c = dict(case, kind="window", x=A.long_grid(m, case["grid"]), y=A.long_values(m, case["ypattern"]))
    fails, sig = check_window(c)
    return shrink(fails, long=True), (None if sig is None else (sig[0], sig[1], (m, case["grid"], case["ypattern"], hash(sig[2]) & 0xffffff), sig[3]))


def long_sizes(quick):
    return A.sizes(40 if quick else 72, 1100 if quick else 9000, minimum=3, subpath="", )


def only(prefix, fails):
    out = []
    for f in fails:
        if f["clause"].startswith(prefix + ":"):
            out.append(dict(f, clause=f["clause"].split(":", 1)[1]))
    return out


def derived_threshold_harness(which, prefix, quick):
    """(m, n) pairs whose interval count m-1 crosses c // n for every threshold c of mc.alphabets.thresholds: behaviour
    that starts where a block of c *oversampled* samples ends (a work buffer, a chunk) depends on m and n together"""
    from fractions import Fraction as F
    pairs = [pr for pr in A.product_pairs((12, 48) if quick else (7, 12, 48, 120), 9000 if quick else 70000) if pr[0] > 44]

    def body(ctx):
        st = ctx.choose(RC.WINDOW, "strategy")
        gk = ctx.choose(["uniform", "gaps"], "grid")
        m, n = ctx.choose(pairs, "m,n")
        yp = ctx.choose(["saw", "steps"], "y")
        for p in RC.param_sets(st, n, alphas=[F(1)], betas=[F(1, 2)], exps=[2], smooths=[1], explicit_a=False):
            case = {"kind": "window-long", "which": which, "len": m, "grid": gk, "ypattern": yp, "strategy": st, "n": n, "p": RC.pkey(p)}
            fails, sig = check_window_long(case)
            ctx.call(1)
            ctx.bulk(1)
            for f in only(prefix, fails):
                ctx.fail(f["clause"], case, f.get("detail"), f.get("key"))
            if sig is not None:
                ctx.outcome(sig[:3])
    return {"name": "intervals-across-derived-thresholds", "body": body,
            "bound_text": "(m, n) with m-1 within -1..+3 of c // n for c in %s: %d pairs" % (A.thresholds(9000 if quick else 70000), len(pairs))}


def every_n_harness(which, prefix, quick):
    """every oversampling factor n in 2..64 (130 in the thorough tier) on two short series: float rounding of 1/n, n*step
    or linspace-style index arithmetic bites at isolated n (49, 98, 103, ...) that no small alphabet of n contains"""
    from fractions import Fraction as F
    ns = list(range(2, 65 if quick else 131))
    series = [([0.0, 1.0, 2.0, 3.0, 4.0], [0.0, 1.0, 3.0, 0.0, 2.0]), ([0.0, 0.5, 2.0, 3.0, 3.25, 5.0], [2.0, 2.0, 5.0, 1.0, 0.0, 1.0])]

    def body(ctx):
        st = ctx.choose(RC.WINDOW, "strategy")
        x, y = ctx.choose(series, "series")
        n = ctx.choose(ns, "n")
        for p in RC.param_sets(st, n, alphas=[F(1, 2), F(1)], betas=[F(1, 2)], exps=[2], smooths=[1], explicit_a=False):
            case = {"kind": "window", "which": which, "x": x, "y": y, "strategy": st, "n": n, "p": RC.pkey(p)}
            fails, sig = check_window(case)
            ctx.call(1)
            ctx.bulk(1)
            for f in only(prefix, fails):
                ctx.fail(f["clause"], case, f.get("detail"), f.get("key"))
            if sig is not None:
                ctx.outcome(sig[:3])
    return {"name": "every-n", "body": body, "bound_text": "every n in 2..%d x 4 window strategies x 2 series x alpha in {1/2, 1}" % ns[-1]}
