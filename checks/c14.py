"""C14 - trend, shift, scale and normalise are exact pointwise maps (E1 + E2)."""
import itertools
import math
from fractions import Fraction as F

import numpy as np

from mc import alphabets as A
from mc.harness import kind, fail, judge, replay  # noqa: F401

PROPERTY = "C14"
RULE = ("series on G(7,k), k=2..5, with abscissa offsets {0, 2, -3.5} and scales {1, 1/2} (x not starting at 0), y in "
        "V+-^k (k<=4) or spanning set x trend family {0, 1, t, t^2, 1-2t, sin} x normalised or not x pairs of trends "
        "(additivity) x shifts {0,1,-2.5} x scales {2,1/2,-1,3} x normalise ranges; through process.* and the Weaver. "
        "Signature = (operation, parameters, digest of output); non-trivial = output differs from input")
ASSUMPTIONS = ["trend callables are pure scalar functions; 'exact' = the same IEEE expression evaluated independently "
               "(bit-equal) for shift/scale/trend, 1e-12 relative for normalise"]
ANCHORS = {"process.py": [(149, 157), (386, 389)], "weaver.py": [(753, 837)]}
FORMS_HARNESSES = "all"
EXPLANATION = "pointwise definitions evaluated on every element of a bounded lattice"

TRENDS = {"zero": lambda t: 0.0, "one": lambda t: 1.0, "t": lambda t: t, "t2": lambda t: t * t, "1-2t": lambda t: 1 - 2 * t,
          "sin": lambda t: math.sin(t)}


def bounds(tier, seed):
    return {"k": "2..5", "trends": list(TRENDS), "shifts": [0, 1, -2.5], "scales": [2, 0.5, -1, 3]}


def _dig(a):
    return hash(np.asarray(a, dtype=float).tobytes()) & 0xffffff


@kind("trend")
def check_trend(case):
    from traffic_weaver.process import trend, linear_trend
    from traffic_weaver import Weaver
    x, y, f1, f2, norm, path = (case[k] for k in ("x", "y", "f", "g", "normalized", "path"))
    key = {"path": path, "normalized": norm}
    fx, fy = [float(v) for v in x], [float(v) for v in y]
    rng = fx[-1] - fx[0]
    fails = []

    def apply(xs, ys, name):
        if path == "process":
            return trend(np.array(xs, dtype=float), np.array(ys, dtype=float), TRENDS[name], normalized=norm)
        wv = Weaver(np.array(xs, dtype=float), np.array(ys, dtype=float)).trend(TRENDS[name], normalized=norm)
        return wv.get()
    try:
        rx, ry = apply(fx, fy, f1)
    except Exception as e:  # noqa
        return [fail("raised", {"exception": repr(e)}, dict(key, exc=type(e).__name__))], None
    exp = [fy[i] + (TRENDS[f1](fx[i] / rng) if norm else TRENDS[f1](fx[i])) for i in range(len(fx))]
    if [float(v) for v in rx] != fx:
        fails.append(fail("trend-changed-x", {"observed": rx}, key))
    if [float(v) for v in ry] != exp:
        fails.append(fail("trend-definition", {"f": f1, "observed": ry, "expected": exp}, key))
    if f1 == "zero" and [float(v) for v in ry] != fy:
        fails.append(fail("zero-trend-not-identity", None, key))
    if f2 is not None:
        r2x, r2y = apply([float(v) for v in rx], [float(v) for v in ry], f2)
        tot = [fy[i] + ((TRENDS[f1](fx[i] / rng) + TRENDS[f2](fx[i] / rng)) if norm else (TRENDS[f1](fx[i]) + TRENDS[f2](fx[i])))
               for i in range(len(fx))]
        sc = max(1.0, max(abs(v) for v in tot))
        if any(abs(float(a) - b) > 1e-12 * sc for a, b in zip(r2y, tot)):
            fails.append(fail("trends-not-additive", {"f": f1, "g": f2, "observed": r2y, "expected": tot}, key))
    if path == "process" and f1 == "t":
        lx, ly = linear_trend(np.array(fx), np.array(fy), 1.5, normalized=norm)
        expl = [fy[i] + 1.5 * (fx[i] / rng if norm else fx[i]) for i in range(len(fx))]
        if [float(v) for v in ly] != expl:
            fails.append(fail("linear-trend-definition", {"observed": ly, "expected": expl}, key))
    return fails, ("trend", f1, f2, norm, _dig(ry))


@kind("shiftscale")
def check_shiftscale(case):
    from traffic_weaver import Weaver
    x, y, op, v = case["x"], case["y"], case["op"], case["v"]
    key = {"op": op}
    fx, fy = [float(t) for t in x], [float(t) for t in y]
    wv = Weaver(np.array(fx), np.array(fy))
    try:
        getattr(wv, op)(v)
    except Exception as e:  # noqa
        return [fail("raised", {"exception": repr(e)}, dict(key, exc=type(e).__name__))], None
    gx, gy = [float(t) for t in wv.get()[0]], [float(t) for t in wv.get()[1]]
    ex = [t + v for t in fx] if op == "shift_x" else [t * v for t in fx] if op == "scale_x" else fx
    ey = [t + v for t in fy] if op == "shift_y" else [t * v for t in fy] if op == "scale_y" else fy
    fails = []
    if gx != ex or gy != ey:
        fails.append(fail("pointwise-map", {"observed": [gx, gy], "expected": [ex, ey]}, key))
    return fails, (op, v, _dig(gx), _dig(gy))


@kind("normalize")
def check_normalize(case):
    from traffic_weaver.process import normalize
    from traffic_weaver import Weaver
    a, lo, hi, path = case["a"], case["lo"], case["hi"], case["path"]
    key = {"path": path}
    fa = [float(v) for v in a]
    try:
        if path == "process":
            got = normalize(np.array(fa), lo, hi)
        elif path == "normalize_y":
            got = Weaver(np.arange(len(fa), dtype=float), np.array(fa)).normalize_y(lo, hi).get()[1]
        elif path == "scale_x(-1)+normalize_x":
            # a non-zero scale may be negative: the abscissae then run downwards, and normalising is still the INCREASING
            # affine map that sends the minimum to min_val and the maximum to max_val
            got = Weaver(np.array([-v for v in fa]), np.arange(len(fa), dtype=float)).scale_x(-1.0).normalize_x(lo, hi).get()[0]
        else:
            got = Weaver(np.array(fa), np.arange(len(fa), dtype=float)).normalize_x(lo, hi).get()[0]
    except Exception as e:  # noqa
        return [fail("raised", {"exception": repr(e)}, dict(key, exc=type(e).__name__))], None
    g = [float(v) for v in got]
    mn, mx = min(fa), max(fa)
    fails = []
    sc = max(1.0, abs(lo), abs(hi))
    exp = [float((F(v) - F(mn)) / (F(mx) - F(mn)) * (F(hi) - F(lo)) + F(lo)) for v in fa]
    if any(abs(p - q) > 1e-12 * sc for p, q in zip(g, exp)):
        fails.append(fail("normalize-affine-map", {"observed": g, "expected": exp}, key))
    if abs(g[fa.index(mn)] - lo) > 1e-12 * sc or abs(g[fa.index(mx)] - hi) > 1e-12 * sc:
        fails.append(fail("normalize-end-values", {"min->": g[fa.index(mn)], "max->": g[fa.index(mx)]}, key))
    if case.get("skip_order"):
        # long arrays: order preservation in O(n log n)
        order = sorted(range(len(fa)), key=lambda i: fa[i])
        for i, j in zip(order[:-1], order[1:]):
            if fa[i] < fa[j] and not g[i] < g[j]:
                fails.append(fail("normalize-order", {"i": i, "j": j}, key))
                return fails, None
        return fails, ("norm", path, lo, hi, _dig(g))
    for i in range(len(fa)):
        for j in range(len(fa)):
            if fa[i] < fa[j] and not g[i] < g[j]:
                fails.append(fail("normalize-order", {"i": i, "j": j}, key))
                return fails, None
    return fails, ("norm", path, lo, hi, _dig(g))


@kind("pointwise-long")
def check_pointwise_long(case):
    """the same clauses on long series (sizes cross powers of two and every integer constant of the code)"""
    from mc.harness import shrink
    m, gk, what = case["len"], case["grid"], case["what"]
    x, y = A.long_grid(m, gk), A.long_values(m, "ramp" if what[0] == "normalize" else "saw")
    if what[0] == "trend":
        res = check_trend({"x": x, "y": y, "f": what[1], "g": what[2], "normalized": what[3], "path": what[4]})
    elif what[0] == "shiftscale":
        res = check_shiftscale({"x": x, "y": y, "op": what[1], "v": what[2]})
    else:
        a = x if what[1] in ("normalize_x", "process-x") else [v * ((-1) ** (i % 3 == 0)) for i, v in enumerate(y)]
        res = check_normalize({"a": a, "lo": what[2], "hi": what[3], "path": "process" if what[1].startswith("process") else what[1], "skip_order": True})
    fails, sig = res
    return shrink(fails, long=True), (None if sig is None else ("long", m, gk) + tuple(str(w) for w in what) + (sig[-1],))


HIST_OPS = [("recreate", "linfix", 2), ("interpolate_n", 7, "linear"), ("truncate_by_index", 1, None), ("truncate_by_index", 0, -1),
            ("truncate_by_value", "absA"), ("append", False), ("repeat", 2), ("shift_x", 1.0), ("scale_x", 0.5), ("restore_original",)]


@kind("pointwise-in-state")
def check_pointwise_in_state(case):
    """trend / shift / scale are the same pointwise maps of the CURRENT series in every state of a history"""
    import copy
    from checks import weaverops as WO
    r = WO.Runner(WO.INITS[case["init"]])
    for op in case["ops"]:
        op = tuple(op)
        if r.concretize(op) is None:
            return [], ("skipped",)
        r.apply(op)
    gx, gy = r.wv.get()
    fx, fy = [float(v) for v in gx], [float(v) for v in gy]
    rng = fx[-1] - fx[0]
    fails = []
    key = {"path": "weaver-history"}
    for name in ("t", "sin"):
        for norm in (False, True):
            w = copy.deepcopy(r.wv).trend(TRENDS[name], normalized=norm)
            exp = [fy[i] + (TRENDS[name](fx[i] / rng) if norm else TRENDS[name](fx[i])) for i in range(len(fx))]
            ox, oy = w.get()
            if [float(v) for v in ox] != fx or [float(v) for v in oy] != exp:
                fails.append(fail("trend-definition", {"f": name, "normalized": norm, "observed": oy, "expected": exp}, dict(key, normalized=norm)))
                return fails, None
    for op, v in (("shift_x", 1.5), ("shift_y", -2.0), ("scale_x", 2.0), ("scale_y", 3.0)):
        w = copy.deepcopy(r.wv)
        getattr(w, op)(v)
        ox, oy = [float(t) for t in w.get()[0]], [float(t) for t in w.get()[1]]
        ex = [t + v for t in fx] if op == "shift_x" else [t * v for t in fx] if op == "scale_x" else fx
        ey = [t + v for t in fy] if op == "shift_y" else [t * v for t in fy] if op == "scale_y" else fy
        if ox != ex or oy != ey:
            fails.append(fail("pointwise-map", {"op": op, "observed": [ox, oy], "expected": [ex, ey]}, dict(key, op=op)))
            return fails, None
    return fails, (case["init"], tuple(tuple(o) for o in case["ops"]))


def harnesses(tier, seed):
    quick = tier == "quick"
    grids = [g for k in (2, 3, 4, 5) for g in A.grids(7, k)]
    ximgs = [(0.0, 1.0), (2.0, 1.0), (-3.5, 0.5)] + ([] if quick else [(100.0, 0.1)])
    names = list(TRENDS)

    def yvecs(k):
        if k <= (3 if quick else 4):
            return [list(v) for v in itertools.product(A.VPM, repeat=k)]
        return [list(v) for v in A.spanning_values(k)]

    def trend_body(ctx):
        g = ctx.choose(grids, "grid")
        off, scl = ctx.choose(ximgs, "ximage")
        path = ctx.choose(["process", "weaver"], "path")
        norm = ctx.choose([False, True], "normalized")
        x = [off + scl * v for v in g]
        if path == "process" and ctx.choose([False, True], "descending-x"):
            x = [-v for v in x]
        for y in yvecs(len(x)):
            for f1 in names:
                judge(ctx, check_trend, {"x": x, "y": y, "f": f1, "g": None, "normalized": norm, "path": path}, bulk=True,
                      nontrivial=lambda s: s[1] != "zero")
            for f1, f2 in (("t", "t2"), ("sin", "1-2t"), ("one", "t"), ("zero", "sin")):
                judge(ctx, check_trend, {"x": x, "y": y, "f": f1, "g": f2, "normalized": norm, "path": path}, calls=2, bulk=True)
        if len(g) == 3 and off == 2.0 and path == "weaver" and norm:
            ctx.sample({"x": x, "trend_family": names, "normalized": norm, "path": path})

    def ss_body(ctx):
        g = ctx.choose(grids, "grid")
        off, scl = ctx.choose(ximgs, "ximage")
        op = ctx.choose(["shift_x", "shift_y", "scale_x", "scale_y"], "op")
        x = [off + scl * v for v in g]
        for y in yvecs(len(x)):
            for v in ((0, 1, -2.5, 1e3) if op.startswith("shift") else (2, 0.5, -1, 3, 0.1)):
                judge(ctx, check_shiftscale, {"x": x, "y": y, "op": op, "v": v}, bulk=True)

    def norm_body(ctx):
        k = ctx.choose([2, 3, 4, 5], "k")
        path = ctx.choose(["process", "normalize_y", "normalize_x", "scale_x(-1)+normalize_x"], "path")
        lo, hi = ctx.choose([(0.0, 1.0), (-2.0, 6.0), (5.0, 5.5), (0.0, 10.0)], "range")
        if path == "scale_x(-1)+normalize_x":
            cands = [[-float(v) for v in g] for g in A.grids(7, k)] + [[-(v / 2 - 3) for v in g] for g in A.grids(6, k)]
        elif path == "normalize_x":
            cands = [list(g) for g in A.grids(7, k)] + [[v / 2 - 3 for v in g] for g in A.grids(6, k)]
        else:
            cands = [list(v) for v in itertools.product(A.VPM, repeat=k) if len(set(v)) > 1]
        for a in cands:
            judge(ctx, check_normalize, {"a": a, "lo": lo, "hi": hi, "path": path}, bulk=True)
            # same series on a large offset (spread tiny relative to the level) and at a tiny magnitude
            for off, scl in ((1e6, 1.0), (1.7e9, 1.0), (0.0, 1e-9)):
                judge(ctx, check_normalize, {"a": [off + scl * v for v in a], "lo": lo, "hi": hi, "path": path}, bulk=True)

    def hist_body(ctx):
        ii = ctx.choose([0, 1, 3, 5], "init")
        ops = [ctx.choose(HIST_OPS, "op%d" % d) for d in range(3)]
        judge(ctx, check_pointwise_in_state, {"init": ii, "ops": [list(o) for o in ops]}, calls=12,
              nontrivial=lambda sg: sg[0] != "skipped")

    long_sizes = A.sizes(40 if quick else 130, 17000 if quick else 140000, minimum=2)
    whats = ([("trend", f, None, nm, p_) for f in ("t", "sin") for nm in (False, True) for p_ in ("process", "weaver")]
             + [("trend", "t", "t2", True, "process")]
             + [("shiftscale", op, v) for op, v in (("shift_x", 1.5), ("shift_y", -2.5), ("scale_x", 0.5), ("scale_x", -2.0), ("scale_y", 3.0))]
             + [("normalize", pth, lo, hi) for pth in ("process-x", "process-y", "normalize_y", "normalize_x", "scale_x(-1)+normalize_x") for lo, hi in ((0.0, 1.0), (-2.0, 6.0))])

    def long_body(ctx):
        m = ctx.choose(long_sizes, "len")
        gk = ctx.choose(["uniform", "gaps", "offset"], "grid")
        for w in whats:
            if w[0] == "normalize" and w[1] == "scale_x(-1)+normalize_x" and gk != "uniform":
                continue
            judge(ctx, check_pointwise_long, {"len": m, "grid": gk, "what": list(w)}, bulk=True)

    return [{"name": "long-series", "body": long_body,
             "bound_text": "every length 2..%d, 2^k+1 and around every integer constant of the code up to %d" % (40 if quick else 130, long_sizes[-1])},
            {"name": "pointwise-in-every-state", "body": hist_body}, {"name": "trend", "body": trend_body}, {"name": "shift-scale", "body": ss_body}, {"name": "normalize", "body": norm_body}]
