"""C19 - remote dataset cache is never corrupt, stale-crossed or fed unchecked data (E3)."""
import hashlib
import os
import pickle
import shutil
import sys
import time

import numpy as np

from mc import engine
from mc.engine import HarnessError
from mc.harness import fail, kind
from mc.harness import replay as _replay
from mc.env import loaderenv as LE
from mc.refmodel import loader as LM

PROPERTY = "C19"
RULE = ("(a) every network-answer sequence (4 failure kinds, good/corrupt/truncated payloads) chosen lazily at each download "
        "attempt x n_retries {0,1,3} x 4 flag combinations x plain/gzip x 3 initial cache states; (b) a kill at every step "
        "boundary (every audited OS event, stat, network call, and inside every write), two crash models that must agree, "
        "then offline and online recovery; (c) explicit-state BFS over ALL interleavings of 2 and 3 loaders (4 in thorough) "
        "with <=1 crash and <=1 network fault anywhere, plus a forced re-download racing a cached read; (d) preemption-bounded "
        "schedules of 4 loaders; (e) all ordered pairs of the 76 remote datasets. Signature = canonical state / outcome; "
        "non-trivial = a fault, crash or preemption occurred")
ASSUMPTIONS = ["crash = process kill (page cache survives); power loss / fsync ordering is not modelled",
               "loaders share nothing but the file system, so threads under a baton scheduler stand in for processes",
               "state merging: a loader is a deterministic function of what it has observed (stat results, network answers, "
               "labels of the steps taken); equal (per-loader logs, directory snapshot, budgets) => equal futures; identical "
               "loaders are interchangeable (sorted)",
               "CPython reference counting closes the pickle file before the rename",
               "direct exploration covers 2-4 loaders; 5..16 loaders are covered by the TLA+ protocol model "
               "(models/CacheLoader*.tla, TLC, counter abstraction) whose every N=2 (thorough: and N=3) edge is replayed "
               "against the code at the granularity of its actions; finer interleavings than the model's actions are "
               "explored directly only for 2-4 loaders",
               "pinned SHA-256 values cannot be compared with the real remote files offline; the verification logic runs "
               "with payloads whose hashes are known"]
ANCHORS = {"datasets/_base.py": [(182, 192), (194, 200), (244, 267)]}
FORMS_HARNESSES = None
EXPLANATION = "exhaustive fault / crash-point / schedule exploration of the real loader in a closed environment"

ANSWERS = ["good", "corrupt", "truncated", "URLError", "HTTPError", "TimeoutError", "ContentTooShortError"]
INITS = ["empty", "cached", "cached+stale-tmp"]
URL = "http://verif.invalid/data.csv"
_scratch = None


def bounds(tier, seed):
    q = tier == "quick"
    return {"n_retries": [0, 1, 3], "answers": ANSWERS, "crash_points": "every step boundary (~22 per cold load)",
            "bfs_loaders": [2, 3] if q else [2, 3, 4], "deviations": "<=1 crash and <=1 fault per execution",
            "preemption_bounded": "4 loaders, bound %d" % (1 if q else 2), "dataset_pairs": 5700}


def scratch():
    global _scratch
    if _scratch is None or not os.path.isdir(_scratch):
        _scratch = LE.make_scratch()
        import atexit
        atexit.register(shutil.rmtree, _scratch, True)
    return _scratch


_home_counter = [0]


def fresh_home():
    _home_counter[0] += 1
    d = os.path.join(scratch(), "h%d_%d" % (os.getpid(), _home_counter[0]))
    os.makedirs(d)
    return d


def remote(gz):
    import traffic_weaver.datasets._base as B
    return B.RemoteFileMetadata("data.csv.gz" if gz else "data.csv", URL, hashlib.sha256(LE.payload_bytes("good", gz)).hexdigest())


def make_call(home, cfg):
    import traffic_weaver.datasets._base as B
    rem = remote(cfg["gzip"])

    def call():
        return B.load_csv_dataset_from_remote(rem, "slot", "folder", data_home=home,
                                              download_if_missing=cfg["dim"], download_even_if_available=cfg["deia"],
                                              n_retries=cfg["n_retries"], delay=1.0, gzip=cfg["gzip"],
                                              unpack_dataset_columns=cfg.get("unpack", False))
    return call


def prepare(home, init):
    if init != "empty":
        os.makedirs(os.path.join(home, "folder"), exist_ok=True)
        with LE._real_open(os.path.join(home, "folder", "slot"), "wb") as f:
            pickle.dump(LE.GOOD, f)
    if init == "cached+stale-tmp":
        d = os.path.join(home, "folder", "tmpstale123")
        os.makedirs(d, exist_ok=True)
        with LE._real_open(os.path.join(d, "data.csv"), "wb") as f:
            f.write(LE.PAYLOAD[:7])
        with LE._real_open(os.path.join(d, "slot"), "wb") as f:
            f.write(pickle.dumps(LE.GOOD)[:20])


def is_good(res, unpack=False):
    if res[0] != "ok":
        return False
    d = res[1]
    if unpack:
        return isinstance(d, tuple) and len(d) == 2 and np.array_equal(d[0], LE.GOOD[:, 0]) and np.array_equal(d[1], LE.GOOD[:, 1])
    return isinstance(d, np.ndarray) and d.shape == LE.GOOD.shape and np.array_equal(d, LE.GOOD)


def set_gzip(world, gz, n_retries=None):
    for lc in world.loaders:
        lc.gzip = gz
    if n_retries is not None:
        # horizon: a correct loader makes at most n_retries + 1 download attempts; one more is allowed to be observed
        world.max_net_calls = n_retries + 2


def later_loads(home, cfg, key):
    """a later load succeeds and returns exactly the cached data: offline iff the slot exists (no
    network call), online always"""
    fails = []
    slot = os.path.join(home, "folder", "slot")
    st = LE.slot_state(slot)
    if st not in ("absent", "good"):
        return [fail("cache-entry-corrupt", {"slot": st}, dict(key, slot=st[1]))]
    c2 = dict(cfg, dim=True, deia=False, n_retries=1, unpack=False)
    w = LE.World([make_call(home, c2)], home, answer_fn=lambda lc, url: "URLError", write_buffer=cfg.get("wbuf", 8192))
    set_gzip(w, cfg["gzip"])
    w.run_to_end(0)
    lc = w.loaders[0]
    w.close()
    if st == "good":
        if lc.net_calls != 0:
            fails.append(fail("cached-dataset-needed-network", {"net_calls": lc.net_calls}, key))
        if not is_good(lc.result):
            fails.append(fail("later-offline-load-failed", {"result": lc.result[:2]}, key))
    else:
        if lc.result[0] == "ok":
            fails.append(fail("data-returned-without-download", None, key))
    w = LE.World([make_call(home, c2)], home, write_buffer=cfg.get("wbuf", 8192))
    set_gzip(w, cfg["gzip"])
    w.run_to_end(0)
    lc = w.loaders[0]
    w.close()
    if not is_good(lc.result):
        fails.append(fail("later-online-load-failed", {"result": lc.result[:2]}, key))
    if LE.slot_state(slot) != "good":
        fails.append(fail("cache-entry-corrupt", {"slot": LE.slot_state(slot), "after": "online recovery"}, key))
    return fails


# ------------------------------------------------------------------------------------------------
# (a) fault sequences, one loader
@kind("fault-sequence")
def check_faults(case):
    cfg, init, answers = case["cfg"], case["init"], list(case["answers"])
    home = fresh_home()
    key = {"harness": "faults", "n_retries": cfg["n_retries"], "flags": [cfg["dim"], cfg["deia"]]}
    try:
        prepare(home, init)
        it = iter(answers)

        def ans(lc, url):
            try:
                return next(it)
            except StopIteration:
                raise HarnessError("network script exhausted")
        w = LE.World([make_call(home, cfg)], home, answer_fn=ans, write_buffer=cfg.get("wbuf", 8192))
        set_gzip(w, cfg["gzip"], cfg["n_retries"])
        w.run_to_end(0)
        lc = w.loaders[0]
        w.close()
        fails = judge_single(lc, cfg, init, answers, home, key)
        return fails, (cfg["n_retries"], cfg["dim"], cfg["deia"], cfg["gzip"], init, tuple(answers[:lc.net_calls]), lc.result[0])
    finally:
        shutil.rmtree(home, ignore_errors=True)


def judge_single(lc, cfg, init, answers, home, key):
    fails = []
    if lc.horizon_exceeded:
        return [fail("retry-count", {"observed": "more than %d download attempts (horizon)" % lc.net_calls, "n_retries": cfg["n_retries"],
                                     "answers": answers[:8]}, key)]
    exp = LM.predict(init != "empty", cfg["dim"], cfg["deia"], cfg["n_retries"], answers)
    res = lc.result
    if res[0] == "exc" and "HarnessError" in res[1]:
        raise HarnessError(res[2])
    if exp["outcome"] == "data":
        if not is_good(res, cfg.get("unpack", False)):
            if res[0] == "ok":
                fails.append(fail("unchecked-or-wrong-data-returned", {"result": res[1]}, key))
            else:
                fails.append(fail("valid-load-failed", {"result": res[:3], "expected": "data"}, key))
    else:
        if res[0] == "ok":
            fails.append(fail("unchecked-or-wrong-data-returned" if exp["outcome"] == "OSError" else "error-swallowed",
                              {"expected": exp["outcome"], "answers": answers}, key))
        elif res[1] != exp["outcome"]:
            fails.append(fail("wrong-exception", {"observed": res[1:3], "expected": exp["outcome"]}, key))
    if lc.net_calls != exp["net_calls"]:
        cl = "cached-dataset-needed-network" if exp["net_calls"] == 0 else "retry-count"
        fails.append(fail(cl, {"observed": lc.net_calls, "expected": exp["net_calls"], "answers": answers}, key))
    if lc.sleeps != exp["sleeps"]:
        fails.append(fail("retry-delay-count", {"observed": lc.sleeps, "expected": exp["sleeps"]}, key))
    st = LE.slot_state(os.path.join(home, "folder", "slot"))
    if st != exp["cache"]:
        cl = "cache-entry-corrupt" if isinstance(st, tuple) else "cache-state"
        fails.append(fail(cl, {"observed": st, "expected": exp["cache"], "answers": answers}, key))
    fails += later_loads(home, cfg, key)
    return fails


def faults_body(ctx):
    nr = ctx.choose([0, 1, 3], "n_retries")
    dim, deia = ctx.choose([(True, False), (True, True), (False, False), (False, True)], "flags")
    gz = ctx.choose([False, True], "gzip")
    init = ctx.choose(INITS, "init")
    unpack = ctx.choose([False, True], "unpack") if (nr == 1) else False
    cfg = {"n_retries": nr, "dim": dim, "deia": deia, "gzip": gz, "unpack": unpack, "wbuf": 16 if nr == 0 else 8192}
    home = fresh_home()
    key = {"harness": "faults", "n_retries": nr, "flags": [dim, deia]}
    answers = []
    try:
        prepare(home, init)

        def ans(lc, url):
            a = ctx.choose(ANSWERS, "net%d" % len(answers))
            answers.append(a)
            return a
        w = LE.World([make_call(home, cfg)], home, answer_fn=ans, write_buffer=cfg.get("wbuf", 8192))
        set_gzip(w, gz, nr)
        w.run_to_end(0)
        lc = w.loaders[0]
        w.close()
        ctx.call(1)
        case = {"kind": "fault-sequence", "cfg": cfg, "init": init, "answers": list(answers)}
        for f in judge_single(lc, cfg, init, answers, home, key):
            ctx.fail(f["clause"], case, f.get("detail"), f.get("key"))
        ctx.outcome((nr, dim, deia, gz, init, tuple(answers), lc.result[0], lc.result[1] if lc.result[0] == "exc" else ""),
                    nontrivial=any(a != "good" for a in answers))
        if nr == 3 and len(answers) == 3 and answers[-1] == "good" and not gz and init == "empty" and dim and not deia:
            ctx.sample({"cfg": cfg, "init": init, "answers": list(answers), "result": lc.result[0]})
    finally:
        shutil.rmtree(home, ignore_errors=True)


# ------------------------------------------------------------------------------------------------
# (b) crash points, one loader, two crash models
def _run_until(home, cfg, answers, k):
    it = iter(answers)
    w = LE.World([make_call(home, cfg)], home, answer_fn=lambda lc, url: next(it, "good"), write_buffer=cfg.get("wbuf", 8192))
    set_gzip(w, cfg["gzip"])
    steps = 0
    while not w.all_done() and steps < k:
        w.step(0)
        steps += 1
    return w, steps


def count_steps(cfg, init, answers):
    home = fresh_home()
    try:
        prepare(home, init)
        w, n = _run_until(home, cfg, answers, 10 ** 6)
        labels = [l for l in w.loaders[0].log if isinstance(l, tuple) and l and l[0] not in ("stat", "net", "sleep") or (len(l) == 2 and l[0] in ("stat", "net"))]
        w.close()
        return n
    finally:
        shutil.rmtree(home, ignore_errors=True)


@kind("crash-point")
def check_crash(case):
    cfg, init, answers, k = case["cfg"], case["init"], list(case["answers"]), case["k"]
    key = {"harness": "crash"}
    fails = []
    # model (i): a forked child that is killed (os._exit) while the loader is parked at boundary k
    home1 = fresh_home()
    home2 = fresh_home()
    try:
        prepare(home1, init)
        prepare(home2, init)
        pid = os.fork()
        if pid == 0:
            try:
                w, n = _run_until(home1, cfg, answers, k)
            finally:
                os._exit(137)
        _, status = os.waitpid(pid, 0)
        snap1 = _snapshot_plain(home1)
        # model (ii): the loader thread is never scheduled again (raises Killed at every later boundary)
        w, n = _run_until(home2, cfg, answers, k)
        label = w.pending(0)
        if not w.all_done():
            w.step(0, crash=True)
        w.close()
        snap2 = _snapshot_plain(home2)
        if snap1 != snap2:
            raise HarnessError("crash models disagree at step %d (%r): %r vs %r" % (k, label, snap1, snap2))
        st = LE.slot_state(os.path.join(home1, "folder", "slot"))
        if st not in ("absent", "good"):
            fails.append(fail("cache-entry-corrupt", {"after_kill_at": k, "boundary": label, "slot": st}, dict(key, slot=st[1])))
        else:
            fails += later_loads(home1, cfg, key)
        return fails, (cfg["gzip"], cfg["deia"], init, tuple(answers), k, str(label), st if isinstance(st, str) else st[0])
    finally:
        shutil.rmtree(home1, ignore_errors=True)
        shutil.rmtree(home2, ignore_errors=True)


def _snapshot_plain(home):
    w = LE.World.__new__(LE.World)
    w.home = home
    return LE.World.snapshot(w)


def crash_body(ctx):
    gz = ctx.choose([False, True], "gzip")
    deia = ctx.choose([False, True], "force")
    init = ctx.choose(INITS, "init")
    answers = ctx.choose([["good"], ["URLError", "good"], ["ContentTooShortError", "good"], ["corrupt"]], "answers")
    wbuf = ctx.choose([8192, 16], "write_buffer")
    cfg = {"n_retries": 1, "dim": True, "deia": deia, "gzip": gz, "wbuf": wbuf}
    n = count_steps(cfg, init, answers)
    k = ctx.choose(n + 1, "kill_at")
    case = {"kind": "crash-point", "cfg": cfg, "init": init, "answers": answers, "k": k}
    fails, sig = check_crash(case)
    ctx.call(4)
    for f in fails:
        ctx.fail(f["clause"], case, f.get("detail"), f.get("key"))
    ctx.outcome(sig, nontrivial=k < n)
    if k == 12 and not gz and init == "empty" and answers == ["good"]:
        ctx.sample({"cfg": cfg, "init": init, "answers": answers, "kill_at_step": k, "boundary": sig[5], "slot_after": sig[6]})


# ------------------------------------------------------------------------------------------------
# (c) explicit-state BFS over all interleavings of N loaders (+ <=1 crash, <=1 fault)
_TOLERANT = [False]     # replay of a recorded schedule on a tree whose loader has fewer / other steps: skip what does not exist


def _replay_events(home, cfgs, init, events):
    """build a fresh world and apply the event history; returns the world"""
    prepare(home, init)
    pending_ans = {}

    def ans(lc, url):
        return pending_ans.pop(lc.tid, "good")
    w = LE.World([make_call(home, c) for c in cfgs], home, answer_fn=ans, write_buffer=cfgs[0].get("wbuf", 8192))
    for lc, c in zip(w.loaders, cfgs):
        lc.gzip = c["gzip"]
    w.max_net_calls = max(c["n_retries"] for c in cfgs) + 2
    for ev in events:
        if _TOLERANT[0] and ev[1] not in w.enabled():
            continue
        if ev[0] == "run":
            w.step(ev[1])
        elif ev[0] == "net":
            pending_ans[ev[1]] = ev[2]
            w.step(ev[1])
        else:
            w.step(ev[1], crash=True)
    return w


def _res_summary(lc):
    r = lc.result
    if r is None:
        return None
    if r[0] == "ok":
        return ("ok", is_good(r))
    return r[:2]


def _state_of(w, cfgs, events, budget):
    crashes = sum(1 for e in events if e[0] == "crash")
    faults = sum(1 for e in events if e[0] == "net" and e[2] != "good")
    per = []
    for lc, c in zip(w.loaders, cfgs):
        per.append((c["deia"], lc.done, lc.killed, lc.pending, tuple(lc.log), _res_summary(lc)))
    key = (tuple(sorted(per, key=repr)), w.snapshot(), crashes, faults)
    en = []
    for tid in w.enabled():
        p = w.pending(tid)
        if p is not None and p[0] == "net":
            en.append(("net", tid, "good"))
            if faults < budget["faults"]:
                en.extend(("net", tid, a) for a in ANSWERS[1:])
        else:
            en.append(("run", tid))
        if crashes < budget["crashes"]:
            en.append(("crash", tid))
    return engine.sig_hash(key), en


def _state_invariants(w, cfgs, home, init, terminal):
    fails = []
    key = {"harness": "schedules", "loaders": len(cfgs)}
    st = LE.slot_state(os.path.join(home, "folder", "slot"))
    if st not in ("absent", "good"):
        fails.append(fail("cache-entry-corrupt", {"slot": st}, dict(key, slot=st[1])))
    for lc, c in zip(w.loaders, cfgs):
        if lc.horizon_exceeded:
            fails.append(fail("retry-count", {"loader": lc.tid, "observed": "more than %d download attempts (horizon)" % lc.net_calls}, key))
            continue
        if lc.result is None or lc.result[0] == "killed":
            continue
        if lc.result[0] == "exc" and "HarnessError" in lc.result[1]:
            raise HarnessError(lc.result[2])
        # what this loader itself observed decides what it may return
        cached = None
        for item in lc.log:
            if len(item) == 3 and item[0] == "stat" and item[1] == "/folder/slot":
                cached = item[2]
                break
        answers = [i[1] for i in lc.log if len(i) == 2 and i[0] == "net" and i[1] in ANSWERS]
        exp = LM.predict(bool(cached), c["dim"], c["deia"], c["n_retries"], answers)
        if exp["outcome"] == "data":
            if not is_good(lc.result):
                cl = "unchecked-or-wrong-data-returned" if lc.result[0] == "ok" else "concurrent-load-failed"
                fails.append(fail(cl, {"loader": lc.tid, "result": lc.result[:3], "log_tail": lc.log[-4:]}, dict(key, exc=lc.result[1] if lc.result[0] == "exc" else "")))
        elif exp["outcome"] != "script-exhausted":
            if lc.result[0] == "ok":
                fails.append(fail("unchecked-or-wrong-data-returned", {"loader": lc.tid, "expected": exp["outcome"]}, key))
            elif lc.result[1] != exp["outcome"]:
                fails.append(fail("wrong-exception", {"loader": lc.tid, "observed": lc.result[1:3], "expected": exp["outcome"]}, key))
    if terminal and not fails:
        ok_loaders = [lc for lc in w.loaders if lc.result and lc.result[0] == "ok"]
        if ok_loaders and st != "good":
            fails.append(fail("cache-state", {"slot": st, "note": "a loader succeeded but the cache entry is not in place"}, key))
        fails += later_loads(home, dict(cfgs[0], gzip=cfgs[0]["gzip"]), key)
    return fails


def _expand(item):
    """worker: replay history+[event], return (key, enabled events, fails, terminal, nsteps)"""
    cfgs, init, events, budget = item
    home = fresh_home()
    try:
        w = _replay_events(home, cfgs, init, events)
        key, en = _state_of(w, cfgs, events, budget)
        terminal = not en
        fails = _state_invariants(w, cfgs, home, init, terminal)
        w.close()
        return key, en, fails, terminal
    finally:
        shutil.rmtree(home, ignore_errors=True)


@kind("schedule")
def check_schedule(case):
    cfgs, init, events = case["cfgs"], case["init"], [tuple(e) for e in case["events"]]
    # a recorded schedule is a list of scheduler decisions; on a tree whose loader takes other steps the decisions that
    # no longer exist are skipped and the remaining loaders are run to completion, lowest id first
    _TOLERANT[0] = True
    try:
        for _ in range(400):
            key, en, fails, terminal = _expand((cfgs, init, events, {"crashes": 1, "faults": 1}))
            if fails or not en:
                return fails
            events = events + [min((e for e in en if e[0] == "run" or (e[0] == "net" and e[2] == "good")), key=lambda e: e[1])]
        return []
    finally:
        _TOLERANT[0] = False


def bfs(name, cfgs, init, budget, max_states=None):
    """level-synchronous explicit-state BFS; every transition is one replay of the real code"""
    st = engine.Stats()
    root = _expand((cfgs, init, [], budget))
    seen = {root[0]}
    frontier = [([], root[1])]
    st.states = 1
    depth = 0
    terminal_states = 0
    while frontier:
        tasks = [(cfgs, init, h + [e], budget) for (h, en) in frontier for e in en]
        res = engine.pmap("bfs-" + name, _expand, tasks, chunksize=max(1, len(tasks) // 256))
        nxt = []
        for (cf, ini, h, _b), (key, en, fails, terminal) in zip(tasks, res):
            st.transitions += 1
            st.executions += 1
            st.calls += len(cfgs)
            for f in fails:
                case = {"kind": "schedule", "cfgs": cfgs, "init": init, "events": [list(e) for e in h]}
                st.add_failure({"clause": f["clause"], "case": engine.jsonable(case), "detail": engine.jsonable(f.get("detail")),
                                "key": engine.jsonable(f.get("key")), "choices": None, "labels": None})
            if key in seen:
                continue
            seen.add(key)
            st.states += 1
            st.outcomes.add(key)
            if any(e[0] != "run" and not (e[0] == "net" and e[2] == "good") for e in h) or len(set(e[1] for e in h)) > 1:
                st.nontrivial.add(key)
            if terminal:
                terminal_states += 1
                if len(st.samples) < 2:
                    st.samples.append({"loaders": len(cfgs), "init": init, "schedule": [list(e) for e in h][:60]})
            else:
                nxt.append((h, en))
        frontier = nxt
        depth += 1
        st.max_depth = depth
        if max_states and st.states > max_states:
            st.caps.append("%s: state cap %d hit at depth %d (explored breadth-first up to there)" % (name, max_states, depth))
            break
    st.cases = st.executions
    st.counters["bfs_%s_states" % name] = st.states
    st.counters["bfs_%s_terminal_states" % name] = terminal_states
    st.counters["bfs_%s_depth" % name] = depth
    return st


# ------------------------------------------------------------------------------------------------
# (d) preemption-bounded stateless exploration (4 loaders)
def preempt_body_factory(n_loaders, init, wbuf=8192):
    def body(ctx):
        cfg = {"n_retries": 1, "dim": True, "deia": False, "gzip": False, "wbuf": wbuf}
        cfgs = [cfg] * n_loaders
        home = fresh_home()
        try:
            prepare(home, init)
            w = LE.World([make_call(home, c) for c in cfgs], home, write_buffer=cfgs[0].get("wbuf", 8192))
            cur = 0
            sched = []
            while True:
                en = w.enabled()
                if not en:
                    break
                if cur in en:
                    opts = [cur] + [t for t in en if t != cur]
                    costs = [0] + [1] * (len(opts) - 1)
                else:
                    opts = en
                    costs = [0] * len(opts)
                cur = ctx.choose(opts, "run", costs=costs)
                sched.append(cur)
                w.step(cur)
            events = [["run", t] for t in sched]
            fails = _state_invariants(w, cfgs, home, init, True)
            w.close()
            ctx.call(n_loaders)
            case = {"kind": "schedule", "cfgs": cfgs, "init": init, "events": events}
            for f in fails:
                ctx.fail(f["clause"], case, f.get("detail"), f.get("key"))
            switches = sum(1 for a, b in zip(sched[:-1], sched[1:]) if a != b)
            ctx.outcome((tuple(sched),), nontrivial=switches >= n_loaders)
        finally:
            shutil.rmtree(home, ignore_errors=True)
    return body


# ------------------------------------------------------------------------------------------------
# (e) histories across datasets: all ordered pairs of the remote datasets
def remote_names():
    from checks import c18
    return c18.remote_dataset_names()


@kind("dataset-pair")
def check_pair(case):
    from checks import c18
    a, b = case["a"], case["b"]
    home = fresh_home()
    try:
        with c18.DatasetEnv(home) as env:
            ra = env.load(a)
            rb = env.load(b)
            alone_home = fresh_home()
        with c18.DatasetEnv(alone_home) as env2:
            rb_alone = env2.load(b)
        shutil.rmtree(alone_home, ignore_errors=True)
        fails = []
        key = {"harness": "pairs"}
        for nm, r in ((a, ra), (b, rb), (b, rb_alone)):
            if r[0] != "ok":
                if r[0] == "exc" and r[1] == "ValueError" and "No such dataset" in r[2]:
                    return [], ("unreachable", a, b)       # C18's subject
                fails.append(fail("load-failed", {"dataset": nm, "result": r[:3]}, key))
        if not fails:
            if not np.array_equal(rb[1], rb_alone[1]):
                fails.append(fail("result-depends-on-earlier-load", {"first": a, "second": b}, key))
            if not np.array_equal(rb[1], c18.expected_data(b)):
                fails.append(fail("wrong-dataset-returned", {"first": a, "second": b}, key))
        return fails, (a, b)
    finally:
        shutil.rmtree(home, ignore_errors=True)


def replay(case):
    from checks import c19_cross, c19_model, c19_payload  # noqa: F401  (their case kinds register on import)
    return _replay(case)


def harnesses(tier, seed):
    quick = tier == "quick"
    base = {"n_retries": 1, "dim": True, "deia": False, "gzip": False}
    forced = dict(base, deia=True)
    hs = [{"name": "fault-sequences", "body": faults_body, "bound_text": "all lazily chosen network answers"},
          {"name": "crash-points", "body": crash_body, "bound_text": "kill at every step boundary, two crash models"}]

    def mk(name, cfgs, init, budget, cap=None):
        return {"name": name, "run": (lambda: bfs(name, cfgs, init, budget, cap)), "bound_text": "all interleavings (explicit-state BFS)"}
    b11 = {"crashes": 1, "faults": 1}
    b00 = {"crashes": 0, "faults": 0}
    hs.append(mk("2-loaders-cold+1crash+1fault", [base, base], "empty", b11))
    hs.append(mk("2-loaders-forced-vs-cached+1crash+1fault", [forced, base], "cached", b11))
    small = dict(base, wbuf=16)
    hs.append(mk("2-loaders-cold-smallbuffer+1crash", [small, small], "empty", {"crashes": 1, "faults": 0}))
    hs.append(mk("3-loaders-cold", [base] * 3, "empty", b00))
    if not quick:
        hs.append(mk("3-loaders-cold+1crash+1fault", [base] * 3, "empty", b11))
        hs.append(mk("2-loaders-gzip+1crash+1fault", [dict(base, gzip=True)] * 2, "cached+stale-tmp", b11))
        hs.append(mk("4-loaders-cold", [base] * 4, "empty", b00, 400000))
    hs.append({"name": "4-loaders-preemption-bounded", "body": preempt_body_factory(4, "empty"), "bound": 1 if quick else 2,
               "bound_text": "preemption bound %d" % (1 if quick else 2)})
    names = remote_names()

    def pairs_body(ctx):
        a = ctx.choose(names, "first")
        for b in names:
            if b == a:
                continue
            case = {"kind": "dataset-pair", "a": a, "b": b}
            fails, sig = check_pair(case)
            ctx.call(3)
            ctx.bulk(1)
            for f in fails:
                ctx.fail(f["clause"], case, f.get("detail"), f.get("key"))
            if sig[0] == "unreachable":
                ctx.note("pair_with_unreachable_dataset")
            else:
                ctx.outcome(sig)
        if a == names[0]:
            ctx.sample({"first": a, "second": "each of the other %d remote datasets" % (len(names) - 1)})
    hs.append({"name": "dataset-pairs", "body": pairs_body, "bound_text": "all ordered pairs of remote datasets"})
    from checks import c19_model, c19_cross, c19_payload
    pbody, psizes = c19_payload.body_factory(tier)
    hs.append({"name": "payload-shapes-and-sizes", "body": pbody,
               "bound_text": "plain / gzip / 2- and 3-member gzip; sizes %s (2^k+1 and around every integer constant of the loader's source); "
                             "one changed byte in the first chunk, after each chunk boundary, in the last bytes" % psizes})
    hs.extend(c19_cross.harnesses(tier, seed))
    hs.extend(c19_model.harnesses(tier, seed))
    return hs
