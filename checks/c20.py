"""C20 - invalid requests are refused with ValueError and leave the Weaver untouched (E1 + E2)."""
import copy
import itertools
import warnings

import numpy as np

from mc import alphabets as A
from mc.harness import fail, kind, judge
from mc.harness import replay as _replay
from checks import rfacommon as RC
from checks import weaverops as WO
from checks import c09

PROPERTY = "C20"
RULE = ("every invalid-argument class of the statement with 2-6 concrete variants: at function level with a lattice of "
        "surrounding valid arguments, and at Weaver level fired in every state reached by all programs over the core "
        "alphabet (24 ops) up to depth 2/3 from 7 constructors; oracle: exactly ValueError and working/reference/original "
        "bytes-, dtype- and type-identical afterwards. Signature = (entry point, invalid class, state digest); "
        "non-trivial = the state to be preserved differs from the initial one")
ASSUMPTIONS = ["only the classes listed in the statement are demanded (an inverted index range and an out-of-range "
               "fixed-point INDEX are not in the list)", "object identity after a rejection is not demanded, only equal content"]
ANCHORS = {"weaver.py": [(65, 66), (112, 114), (311, 314), (356, 359), (413, 419), (980, 983)],
           "sorted_array_utils.py": [(311, 315), (543, 549)], "process.py": [(80, 87), (359, 360)],
           "match.py": [(92, 97), (125, 126)], "rfa.py": [(54, 55)], "datasets/_base.py": [(61, 64)]}
FORMS_HARNESSES = "all"
FORMS_SKIP = ("deep-narrow-histories",)
FORMS_WIDTH = {"in-every-state": 5, "in-large-states": 4, "function-level": 9, "function-level-long-series": 9}
EXPLANATION = "every invalid class fired in every state of a bounded exhaustive exploration"


def bounds(tier, seed):
    return {"state_depth": 2 if tier == "quick" else 3, "core_ops": len(c09.CORE_OPS), "constructors": 7}


def _expect_value_error(fn, key):
    try:
        with warnings.catch_warnings():
            warnings.simplefilter("ignore")
            fn()
    except ValueError:
        return []
    except Exception as e:  # noqa
        return [fail("wrong-exception-type", {"exception": repr(e)}, dict(key, exc=type(e).__name__))]
    return [fail("invalid-request-accepted", None, key)]


def invalid_weaver_ops(wv):
    """list of (class, variant, callable(w)) built for the current state"""
    gx = wv.get()[0]
    n = len(gx)
    try:
        x0, x1 = float(gx[0]), float(gx[-1])
        gl = [float(v) for v in gx]
    except Exception:
        x0, x1, gl = 0.0, 1.0, [0.0, 1.0]
    absent = (x0 + gl[1]) / 2 if n > 1 and (x0 + gl[1]) / 2 not in gl else x0 - 0.123
    mid = (x0 + x1) / 2
    ops = []
    for nn in (1, 0, -1, 1.5):
        for st in ("linfix", "expada", "spline", "pconst"):
            ops.append(("n<2", "%s:%s" % (st, nn), lambda w, nn=nn, st=st: w.recreate_from_average(nn, rfa_class=RC.cls(st))))
    ops += [
        ("unknown-rule", "target", lambda w: w.integral_match(target_function_integral_method="simpson")),
        ("unknown-rule", "reference", lambda w: w.integral_match(reference_function_integral_method="midpoint")),
        ("unknown-search-strategy", "integral_match", lambda w: w.integral_match(fixed_points_finding_strategy="nearest")),
        ("unknown-rule", "target+one-fixed-point", lambda w: w.integral_match(target_function_integral_method="simpson", fixed_points_in_x=[x0])),
        ("unknown-rule", "target+one-fixed-index", lambda w: w.integral_match(target_function_integral_method="simpson", fixed_points_indices_in_x=[0])),
        ("unknown-rule", "reference+one-fixed-point", lambda w: w.integral_match(reference_function_integral_method="simpson", fixed_points_in_x=[x0])),
        ("fixed-point-not-a-sample", "positions", lambda w: w.integral_match(fixed_points_in_x=[x0, absent, x1])),
        ("fixed-point-not-a-sample", "one-ulp-off", lambda w: w.integral_match(fixed_points_in_x=[x0, float(np.nextafter(gl[n // 2], np.inf)), x1])),
        ("fixed-point-not-a-sample", "relative-1e-13-off", lambda w: w.integral_match(fixed_points_in_x=[x0, gl[n // 2] * (1 + 1e-13) if gl[n // 2] else 1e-300, x1])),
        ("too-many-fixed-points", "positions", lambda w: w.integral_match(fixed_points_in_x=gl + [x1 + 1.0])),
        ("too-many-fixed-points", "indices", lambda w: w.integral_match(fixed_points_indices_in_x=list(range(n)) + [0])),
        ("unknown-interpolation-method", "n", lambda w: w.interpolate(n=5, method="quadratic")),
        ("unknown-interpolation-method", "grid", lambda w: w.interpolate(new_x=[x0, mid, x1], method="nearest")),
        ("grid-end-points", "first", lambda w: w.interpolate(new_x=[x0 + 0.25 * (x1 - x0), mid, x1])),
        ("grid-end-points", "last", lambda w: w.interpolate(new_x=np.array([x0, mid, x1 + 1.0]))),
        ("grid-end-points", "neither-n-nor-grid", lambda w: w.interpolate()),
        ("truncation-range", "equal", lambda w: w.truncate_by_value(mid, mid)),
        ("truncation-range", "inverted", lambda w: w.truncate_by_value(x1, x0)),
        ("truncation-range", "ratio-equal", lambda w: w.truncate_by_value(0.5, 0.5, x_left_as_ratio=True, x_right_as_ratio=True)),
        ("truncation-range", "ratio-inverted", lambda w: w.truncate_by_value(0.75, 0.25, x_left_as_ratio=True, x_right_as_ratio=True)),
        ("index-bounds", "truncate-start<0", lambda w: w.truncate_by_index(-1)),
        ("index-bounds", "truncate-stop>len", lambda w: w.truncate_by_index(0, n + 1)),
        ("index-bounds", "slice-start<0", lambda w: w.slice_by_index(-1)),
        ("index-bounds", "slice-stop>len", lambda w: w.slice_by_index(0, n + 1)),
        ("slice-value-absent", "start", lambda w: w.slice_by_value(absent, x1)),
        ("slice-value-absent", "stop", lambda w: w.slice_by_value(x0, x1 + 7.5)),
        ("slice-value-absent", "both", lambda w: w.slice_by_value(absent, x1 + 7.5)),
    ]
    # a truncation range that is fine for the working series but empty / inverted for the reference series (their
    # ranges differ after reshaping + truncation): the operation may honour it, but if it refuses, it must refuse
    # atomically.  Flagged "may-succeed": acceptance is not judged, only what a refusal leaves behind.
    try:
        rx = wv.get_reference()[0]
        r0, r1 = float(rx[0]), float(rx[-1])
        wl, rl = 0.5 * (x1 - x0) + x0, 0.5 * (r1 - r0) + r0
        if wl < rl:
            right = (wl + rl) / 2
            ops.append(("truncation-range", "inverted-for-reference-only:left-ratio",
                        lambda w: w.truncate_by_value(0.5, right, x_left_as_ratio=True), True))
        if rl < wl:
            left = (wl + rl) / 2
            ops.append(("truncation-range", "inverted-for-reference-only:right-ratio",
                        lambda w: w.truncate_by_value(left, 0.5, x_right_as_ratio=True), True))
    except Exception:
        pass
    return ops


def state_checks(r, op):
    fails = []
    before = WO.observables(r.wv)
    for entry in invalid_weaver_ops(r.wv):
        cls, variant, call = entry[:3]
        may_succeed = len(entry) > 3 and entry[3]
        w = copy.deepcopy(r.wv)     # a copy, so that an accepted invalid request cannot derail the exploration
        key = {"class": cls, "variant": variant.split(":")[0], "level": "weaver"}
        res = _expect_value_error(lambda: call(w), key)
        if may_succeed:
            if any(f["clause"] == "invalid-request-accepted" for f in res):
                continue                     # honoured: nothing to judge
            fails += res
        else:
            fails += res
        after = WO.observables(w)
        if after != before:
            names = ["x", "y", "reference_x", "reference_y", "original_x", "original_y"]
            diff = [names[i] for i in range(6) if after[i] != before[i]]
            fails.append(fail("rejected-operation-changed-state", {"changed": diff}, dict(key, changed=diff[0])))
    return WO.tag(fails, op, r.history)


@kind("history-c20")
def check_history(case):
    r = WO.Runner(WO.INITS[case["init"]])
    for op in case["ops"]:
        op = tuple(op)
        if r.concretize(op) is None:
            return [fail("replay-precondition", {"op": op}, {})]
        r.apply(op)
    return state_checks(r, tuple(case["ops"][-1]) if case["ops"] else None)


# ---- function level ---------------------------------------------------------------------------
def _fn_cases():
    """(class, variant, thunk-factory(ctxargs)) at function level; ctxargs = (x, y) valid series"""
    out = []

    def add(cls, variant, f):
        out.append((cls, variant, f))
    from_2d = lambda a: (lambda x, y: __import__("traffic_weaver").Weaver.from_2d_array(a))  # noqa: E731
    add("length-mismatch", "x-longer", lambda x, y: __import__("traffic_weaver").Weaver(np.array(x + [x[-1] + 1]), np.array(y)))
    add("length-mismatch", "y-longer", lambda x, y: __import__("traffic_weaver").Weaver(np.array(x), np.array(y + [0.0])))
    add("length-mismatch", "lists", lambda x, y: __import__("traffic_weaver").Weaver(list(x), list(y)[:-1]))
    add("not-(N,2)", "1-d", lambda x, y: __import__("traffic_weaver").Weaver.from_2d_array(np.array(x)))
    add("not-(N,2)", "(N,3)", lambda x, y: __import__("traffic_weaver").Weaver.from_2d_array(np.column_stack((x, y, y))))
    add("not-(N,2)", "3-d", lambda x, y: __import__("traffic_weaver").Weaver.from_2d_array(np.zeros((len(x), 2, 1))))
    add("not-(N,2)", "(2,N)", lambda x, y: __import__("traffic_weaver").Weaver.from_2d_array(np.vstack((x, y))) if len(x) != 2 else (_ for _ in ()).throw(ValueError()))
    add("not-(N,2)", "(N,1)", lambda x, y: __import__("traffic_weaver").Weaver.from_2d_array(np.array(x).reshape(-1, 1)))
    for st in RC.STRATS + ["function"]:
        for nn in (1, 0, -1, 1.5):
            def mk(st=st, nn=nn):
                def f(x, y):
                    if st == "function":
                        return RC.cls(st)(np.array(x), np.array(y), nn, sampling_function_supplier=lambda a, b: (lambda t: 0.0)).rfa()
                    return RC.cls(st)(np.array(x), np.array(y), nn).rfa()
                return f
            add("n<2", "%s:%s" % (st, nn), mk())

    def S():
        import traffic_weaver.sorted_array_utils as m
        return m

    def M():
        import traffic_weaver.match as m
        return m

    def P():
        import traffic_weaver.process as m
        return m
    add("unknown-rule", "integral", lambda x, y: S().integral(np.array(x), np.array(y), "simpson"))
    add("unknown-rule", "match-target", lambda x, y: M().integral_matching_reference_stretch(_fine(x), _fine_y(x, y), np.array(x), np.array(y), target_function_integral_method="simpson"))
    add("unknown-rule", "match-reference", lambda x, y: M().integral_matching_reference_stretch(_fine(x), _fine_y(x, y), np.array(x), np.array(y), reference_function_integral_method=""))
    add("unknown-search-strategy", "dispatcher", lambda x, y: S().find_closest_element_indices_to_values(np.array(x), [x[0]], strategy="nearest"))
    add("unknown-search-strategy", "match", lambda x, y: M().integral_matching_reference_stretch(_fine(x), _fine_y(x, y), np.array(x), np.array(y), fixed_points_finding_strategy="LOWER"))
    add("unknown-interpolation-method", "function", lambda x, y: _must_not_return(P().interpolate(np.array(x), np.array(y), np.array(x), method="quadratic")))
    add("unknown-interpolation-method", "function-empty", lambda x, y: _must_not_return(P().interpolate(np.array(x), np.array(y), np.array(x), method="")))
    add("unknown-dataset", "load_dataset", lambda x, y: __import__("traffic_weaver.datasets", fromlist=["x"]).load_dataset("no_such_dataset"))
    add("unknown-dataset", "sandvine-prefix", lambda x, y: __import__("traffic_weaver.datasets", fromlist=["x"]).load_dataset("sandvine_nothing"))
    add("fixed-point-not-a-sample", "positions", lambda x, y: M().integral_matching_reference_stretch(_fine(x), _fine_y(x, y), np.array(x), np.array(y), fixed_points_in_x=[x[0], x[0] + (x[1] - x[0]) * 0.3, x[-1]]))
    add("fixed-point-not-a-sample", "one-ulp-off", lambda x, y: M().integral_matching_reference_stretch(_fine(x), _fine_y(x, y), np.array(x), np.array(y), fixed_points_in_x=[x[0], float(np.nextafter(x[1], np.inf)), x[-1]]))
    add("unknown-rule", "target+single-fixed-point", lambda x, y: M().integral_matching_reference_stretch(_fine(x), _fine_y(x, y), np.array(x), np.array(y), target_function_integral_method="simpson", fixed_points_in_x=[x[0]]))
    add("too-many-fixed-points", "positions", lambda x, y: M().integral_matching_reference_stretch(_fine(x), _fine_y(x, y), np.array(x), np.array(y), fixed_points_in_x=list(_fine(x)) + [x[-1] + 1]))
    add("too-many-fixed-points", "indices", lambda x, y: M().integral_matching_reference_stretch(_fine(x), _fine_y(x, y), np.array(x), np.array(y), fixed_points_indices_in_x=list(range(len(_fine(x)))) + [0]))
    add("truncation-range", "equal", lambda x, y: P().truncate(np.array(x), np.array(y), x[1], x[1]))
    add("truncation-range", "inverted", lambda x, y: P().truncate(np.array(x), np.array(y), x[-1], x[0]))
    add("truncation-range", "ratio-equal", lambda x, y: P().truncate(np.array(x), np.array(y), 0.25, 0.25, True, True))
    add("truncation-range", "ratio-inverted", lambda x, y: P().truncate(np.array(x), np.array(y), 1.0, 0.0, True, True))
    add("truncation-range", "mixed-inverted", lambda x, y: P().truncate(np.array(x), np.array(y), x[-1] + 1, 0.5, False, True))
    return out


def _fine(x):
    import traffic_weaver.sorted_array_utils as S
    return S.oversample_linspace(np.array(x, dtype=float), 3)


def _fine_y(x, y):
    import traffic_weaver.sorted_array_utils as S
    return S.oversample_piecewise_constant(np.array(y, dtype=float), 3)


def _must_not_return(v):
    return v


FN_CASES = None


@kind("invalid-function-call")
def check_fn(case):
    global FN_CASES
    if FN_CASES is None:
        FN_CASES = _fn_cases()
    cls, variant, f = FN_CASES[case["index"]]
    x, y = [float(v) for v in case["x"]], [float(v) for v in case["y"]]
    key = {"class": cls, "variant": variant.split(":")[0], "level": "function"}
    return _expect_value_error(lambda: f(list(x), list(y)), key), (cls, variant, len(x))


@kind("invalid-function-call-long")
def check_fn_long(case):
    """the same invalid calls with a long valid series around them (fast paths are chosen by size)"""
    m = case["len"]
    x = A.long_grid(m, "gaps")
    y = A.long_values(m, "saw")
    fails, sig = check_fn({"index": case["index"], "x": x, "y": y})
    for f in fails:
        f["key"] = dict(f["key"], long=True)
    return fails, sig


@kind("large-state-c20")
def check_large_state(case):
    """every invalid Weaver request in a state with MANY samples: constructor, recreate with a large n, one more operation"""
    r = WO.Runner(WO.INITS[case["init"]])
    try:
        with warnings.catch_warnings():
            warnings.simplefilter("ignore")
            r.wv.recreate_from_average(case["n"], rfa_class=RC.cls(case["strategy"]))
            if case["then"] == "append":
                r.wv.append_one_sample()
            elif case["then"] == "shift":
                r.wv.shift_x(2.5)
            elif case["then"] == "match":
                r.wv.integral_match()
    except Exception:  # noqa  (valid-history failures are C09's subject)
        return [], ("skipped",)
    r.history = [("recreate", case["strategy"], case["n"]), (case["then"],)]
    fails = state_checks(r, (case["then"],))
    for f in fails:
        f["key"] = dict(f.get("key") or {}, large=True)
    return fails, ("large", case["init"], case["n"], case["strategy"], case["then"], len(r.wv.get()[0]))


def replay(case):
    return _replay(case)


def harnesses(tier, seed):
    quick = tier == "quick"
    depth = 2 if quick else 3
    global FN_CASES
    FN_CASES = _fn_cases()
    grids = [g for k in (2, 3, 4, 5) for g in A.grids(5, k)]

    def fn_body(ctx):
        i = ctx.choose(len(FN_CASES), "invalid-call")
        g = ctx.choose(grids, "grid")
        for off, y in itertools.product((0.0, -2.5), ([float((3 * j) % 5 - 1) for j in range(len(g))], [1.0] * len(g))):
            x = [off + v for v in g]
            judge(ctx, check_fn, {"index": i, "class": FN_CASES[i][0], "variant": FN_CASES[i][1], "x": x, "y": y}, bulk=True)
        if len(g) == 3 and i % 9 == 0:
            ctx.sample({"class": FN_CASES[i][0], "variant": FN_CASES[i][1], "x": list(g)})

    def state_body(ctx):
        ii = ctx.choose(7, "init")
        r = WO.Runner(WO.INITS[ii])
        done = []

        def node(op):
            if not ctx.fresh:
                return
            case = {"kind": "history-c20", "init": ii, "ops": [list(o) for o in done]}
            fails = state_checks(r, op)
            ctx.case(len(invalid_weaver_ops(r.wv)))
            ctx.call(len(invalid_weaver_ops(r.wv)))
            for f in fails:
                ctx.fail(f["clause"], case, f.get("detail"), f.get("key"))
            ctx.outcome(WO.observables(r.wv), nontrivial=len(done) > 0)
            if len(done) == 2 and ii == 3 and sum(ctx.choices) % 53 == 0:
                ctx.sample({"init": WO.INITS[ii]["name"], "state_after": [list(o) for o in done],
                            "invalid_ops_fired": sorted(set(e[0] for e in invalid_weaver_ops(r.wv)))})
        node(None)
        for d in range(depth):
            en = r.enabled(c09.CORE_OPS)
            op = ctx.choose(en, "op%d" % d)
            try:
                r.apply(op)
            except Exception:  # noqa  (valid-history failures are C09's subject)
                return
            done.append(op)
            node(op)

    DEEP_OPS = [("observe", "slice_by_value"), ("truncate_by_index", 0, -1), ("truncate_by_index", 1, None), ("append", False),
                ("repeat", 2), ("shift_x", 1.0), ("normalize_y", 0.0, 10.0), ("smooth", 0.5), ("restore_original",),
                ("recreate", "linfix", 2), ("observe", "to_function")]
    deep_depth = 4 if quick else 5

    def deep_body(ctx):
        """one operation per kind (observers included: they may build hidden state), deeper: the invalid requests are
        fired in every state at depth >= 3 (shallower states are the subject of in-every-state)"""
        ii = ctx.choose([1, 3], "init")
        r = WO.Runner(WO.INITS[ii])
        done = []
        for d in range(deep_depth):
            en = r.enabled(DEEP_OPS)
            op = ctx.choose(en, "op%d" % d)
            try:
                r.apply(op)
            except Exception:  # noqa  (valid-history failures are C09's subject)
                return
            done.append(op)
            if len(done) >= 3 and ctx.fresh:
                case = {"kind": "history-c20", "init": ii, "ops": [list(o) for o in done]}
                fails = state_checks(r, op)
                k = len(invalid_weaver_ops(r.wv))
                ctx.case(k)
                ctx.call(k)
                for f in fails:
                    ctx.fail(f["clause"], case, f.get("detail"), f.get("key"))
                ctx.outcome(WO.observables(r.wv))

    lsizes = [v for v in A.sizes(34, 1100 if quick else 9000) if v >= 16]

    def fn_long_body(ctx):
        i = ctx.choose(len(FN_CASES), "invalid-call")
        if FN_CASES[i][0] in ("unknown-dataset",):
            return
        for m in lsizes:
            if m > 300 and FN_CASES[i][0] in ("n<2", "too-many-fixed-points"):
                continue
            judge(ctx, check_fn_long, {"index": i, "class": FN_CASES[i][0], "variant": FN_CASES[i][1], "len": m}, bulk=True)

    def large_body(ctx):
        ii = ctx.choose([0, 1, 3, 5], "init")
        n = ctx.choose([17, 20, 32, 33, 48, 64] + [c + 1 for c in A.code_constants(lo=65, hi=300, exclude="datasets")], "n")
        st = ctx.choose(["linfix", "pconst", "spline"], "strategy")
        then = ctx.choose(["nothing", "append", "shift", "match"], "then")
        judge(ctx, check_large_state, {"init": ii, "n": n, "strategy": st, "then": then}, calls=45,
              nontrivial=lambda sg: sg[0] != "skipped")

    return [{"name": "deep-narrow-histories", "body": deep_body,
             "bound_text": "all programs over %d operations (one per kind, observers included) to depth %d, requests fired at depth >= 3" % (len(DEEP_OPS), deep_depth)},
            {"name": "function-level", "body": fn_body},
            {"name": "function-level-long-series", "body": fn_long_body, "bound_text": "series lengths %s" % lsizes},
            {"name": "in-large-states", "body": large_body, "bound_text": "constructor, recreate with n in {17..64, code constants+1}, one more operation"},
            {"name": "in-every-state", "body": state_body,
                                                          "bound_text": "all programs over 24 core ops to depth %d" % depth}]
