"""C04 - recreated series has an exact n-fold grid structure (E1)."""
import math
from fractions import Fraction as F

import numpy as np

from mc import alphabets as A
from mc.harness import kind, fail, judge, replay  # noqa: F401
from checks import rfacommon as RC

PROPERTY = "C04"
RULE = ("6 strategies + FunctionRFA with two user suppliers x all grids G(8,m) m=2..5/6 (int/float dtype, list/array "
        "input) + structured m in {10,25,60} x n in {2..9,16,64} x window/beta/exponent/smoothing alphabets x 3 value "
        "patterns (ramp, ties, zig-zag); n in {1,0,-1,1.5} for the rejection clause. Signature = (strategy, m, n, "
        "digest of xs); non-trivial = every accepted case (the output grid is a new array)")
ASSUMPTIONS = ["'equally spaced' is judged to 4 ulp of the gap's end points (np.linspace rounding)",
               "user suppliers tried: np.interp returning a Python float and a 0-d array"]
ANCHORS = {"rfa.py": [(50, 55), (70, 90), (132, 136), (259, 280)], "sorted_array_utils.py": [(57, 91)]}
FORMS_HARNESSES = "all"
EXPLANATION = "structural invariants evaluated on every element of a bounded configuration lattice"

SUPPLIERS = {"interp-float": lambda x, y: (lambda t: float(np.interp(t, x, y))),
             "interp-0d": lambda x, y: (lambda t: np.asarray(np.interp(t, x, y))),
             # documented contract: f(float) -> float.  A constant level, a function that only takes scalars, and a
             # one-point-at-a-time kernel smoother (a ratio of two sums) are all legal sampling functions
             "constant": lambda x, y: (lambda t: 3.0),
             "scalar-only": lambda x, y: (lambda t: math.sin(t) + float(y[0])),
             # (weights 1 / (1 + d^2): they never underflow, so the function is finite for every abscissa image)
             "kernel": lambda x, y: (lambda t: float(np.sum(np.asarray(y, dtype=float) / (1.0 + (np.asarray(x, dtype=float) - t) ** 2))
                                                    / np.sum(1.0 / (1.0 + (np.asarray(x, dtype=float) - t) ** 2)))),
             "kernel-0d": lambda x, y: (lambda t: np.sum(np.asarray(y, dtype=float) / (1.0 + np.abs(np.asarray(x, dtype=float) - np.mean(t))))
                                        / np.sum(1.0 / (1.0 + np.abs(np.asarray(x, dtype=float) - np.mean(t)))))}


def bounds(tier, seed):
    return {"m": "2..5 exhaustive on {0..8} + {10,25}" if tier == "quick" else "2..6 exhaustive + {10,25,60}",
            "n": [2, 3, 4, 5, 6, 7, 8, 9, 16, 64]}


def _patterns(m):
    return [list(range(m)), [(i // 2) % 2 * 3 for i in range(m)], [(-1) ** i * (i + 1) for i in range(m)]]


def _obj(case):
    st = case["strategy"]
    x, y, n = case["x"], case["y"], case["n"]
    dt = case.get("dtype", "float64")
    xs = list(x) if case.get("as_list") else np.array(x, dtype=dt)
    ys = list(y) if case.get("as_list") else np.array(y, dtype=dt)
    if st.startswith("function:"):
        import traffic_weaver.rfa as R
        return R.FunctionRFA(xs, ys, n, sampling_function_supplier=SUPPLIERS[st.split(":")[1]])
    return RC.cls(st)(xs, ys, n, **RC.kwargs_for(st, case.get("p", {})))


def _run(case):
    return _obj(case).rfa()


@kind("structure")
def check_structure(case):
    st, x, n = case["strategy"], case["x"], case["n"]
    key = {"strategy": st.split(":")[0]}
    m = len(x)
    try:
        obj = _obj(case)
        res = obj.rfa()
        first = (np.array(res[0], copy=True), np.array(res[1], copy=True)) if isinstance(res, tuple) and len(res) == 2 else None
        if first is not None and isinstance(res[0], np.ndarray) and isinstance(res[1], np.ndarray) and case.get("edit_between", True):
            res[0][...] = res[0] - 0.5      # the caller owns what it was handed: edit in place ...
            res[1][...] = res[1] + 3.0
            res = (res[0] + 0.5, res[1] - 3.0)
        res2 = obj.rfa()          # ... and ask the same strategy object again: same answer
    except Exception as e:  # noqa
        return [fail("raised", {"exception": repr(e)}, dict(key, exc=type(e).__name__))], None
    fails = []
    if first is not None and isinstance(res2, tuple) and len(res2) == 2:
        try:
            same = all(np.asarray(a).shape == np.asarray(b).shape and np.array_equal(np.asarray(a, dtype=float), np.asarray(b, dtype=float))
                       for a, b in zip(first, res2))
        except Exception:
            same = False
        if not same:
            fails.append(fail("second-rfa-call-differs", {"first_len": len(first[0]), "second_len": len(np.asarray(res2[0]))}, key))
    if not (isinstance(res, tuple) and len(res) == 2):
        return [fail("not-a-pair", {"type": type(res).__name__}, key)], None
    xs, ys = first if first is not None else res
    for nm, arr in (("x", xs), ("y", ys)):
        if not isinstance(arr, np.ndarray):
            fails.append(fail("not-ndarray", {"which": nm, "type": type(arr).__name__}, dict(key, which=nm)))
        elif arr.ndim != 1:
            fails.append(fail("not-1d", {"which": nm, "shape": arr.shape}, dict(key, which=nm)))
        elif arr.dtype.kind != "f":
            fails.append(fail("not-float", {"which": nm, "dtype": str(arr.dtype)}, dict(key, which=nm)))
    if fails:
        return fails, None
    L = (m - 1) * n + 1
    if len(xs) != L or len(ys) != L:
        return [fail("length", {"len_x": len(xs), "len_y": len(ys), "expected": L}, key)], None
    if not (np.all(np.isfinite(xs)) and np.all(np.isfinite(ys))):
        fails.append(fail("not-finite", {"xs": xs, "ys": ys}, key))
    xf = np.array(np.array(x, dtype=case.get("dtype", "float64")), dtype=np.float64)
    if xs[::n].tobytes() != xf.tobytes():
        fails.append(fail("nth-abscissa", {"got": xs[::n], "expected": xf}, key))
    for k in range(m - 1):
        a, b = float(xf[k]), float(xf[k + 1])
        u = 4 * max(math.ulp(a), math.ulp(b))
        seg = [float(v) for v in xs[k * n:(k + 1) * n + 1]]
        if any(q <= p for p, q in zip(seg[:-1], seg[1:])):
            fails.append(fail("not-increasing", {"gap": k, "segment": seg}, key))
            break
        if any(abs(seg[i] - (a + (b - a) * i / n)) > u for i in range(n + 1)):
            fails.append(fail("not-equally-spaced", {"gap": k, "segment": seg}, key))
            break
    return fails, (st, m, n, hash(xs.tobytes()) & 0xffffff)


@kind("reject-n")
def check_reject(case):
    st, n = case["strategy"], case["n"]
    key = {"strategy": st.split(":")[0]}
    try:
        c = dict(case)
        _run(c)
    except ValueError:
        return [], (st, n)
    except Exception as e:  # noqa
        return [fail("wrong-exception", {"exception": repr(e)}, dict(key, exc=type(e).__name__))], None
    return [fail("n<2-accepted", {"n": n}, key)], None


def harnesses(tier, seed):
    quick = tier == "quick"
    mmax = 5 if quick else 6
    grids = [g for m in range(2, mmax + 1) for g in A.grids(8, m)]
    ns = [2, 3, 5, 8, 16] if quick else [2, 3, 4, 5, 6, 7, 8, 9, 16, 64]      # every n in 2..64 is covered by the every-n harness
    strategies = RC.STRATS + ["function:interp-float", "function:interp-0d", "function:constant", "function:scalar-only", "function:kernel",
                              "function:kernel-0d"]
    imgs = [lambda v: 0.1 * v + 0.3, lambda v: 1e3 * v - 7, lambda v: v / 3.0]
    ident = lambda v: v  # noqa: E731
    # (dtype, list input?, abscissa image): float images only make sense for the float array variant
    variants = [("float64", False, ident), ("int64", False, ident), ("float64", True, ident)]
    variants += [("float64", False, imgs[seed % 3])] if quick else [("float64", False, f) for f in imgs]
    # float32 abscissae of large magnitude (days since epoch, hourly data): still a float64 equally spaced grid
    variants += [("float32", False, lambda v: 19000.0 + v / 24.0)]
    # spacings far below 1e-8, and a near-uniform (relative 1e-6) but non-uniform grid
    variants += [("float64", False, lambda v: v * A.TINY), ("float64", False, lambda v: v * (1.0 + 1e-6 * ((int(v) % 3) - 1)))]

    def psets(st, n):
        if st.startswith("function") or st not in RC.WINDOW:
            return [{}]
        if quick:
            return RC.param_sets(st, n, betas=[F(1, 2)], exps=[2], smooths=[1])
        return RC.param_sets(st, n, betas=[F(0), F(1, 2), F(1)], exps=[F(1, 2), 2], smooths=[F(1, 2), 1])

    def body(ctx):
        g = ctx.choose(grids, "grid")
        st = ctx.choose(strategies, "strategy")
        dt, as_list, img = ctx.choose(variants, "input")
        x = [img(v) for v in g]
        if dt == "int64" and any(float(v) != int(v) for v in x):
            return
        if dt == "int64":
            x = [int(v) for v in x]
        for n in ns:
            for p in psets(st, n):
                for y in (_patterns(len(x))[1:] if quick else _patterns(len(x))):
                    judge(ctx, check_structure, {"strategy": st, "x": x, "y": y, "n": n, "p": RC.pkey(p), "dtype": dt,
                                                 "as_list": as_list}, bulk=True)
        if len(x) == 3 and st == "linfix" and dt == "float64" and not as_list:
            ctx.sample({"strategy": st, "x": x, "n": ns, "params": "window alphabets"})

    def long_body(ctx):
        m = ctx.choose([10, 25] if quick else [10, 25, 60], "m")
        st = ctx.choose(strategies, "strategy")
        pat = ctx.choose(3, "xpattern")
        x = [[float(i) for i in range(m)], [0.5 * i + (i % 3) * 0.125 for i in range(m)],
             [float(i * i) / 7 for i in range(m)]][pat]
        for n in ns + ([64] if quick else []):
            for p in psets(st, n)[::3]:
                for y in _patterns(m):
                    judge(ctx, check_structure, {"strategy": st, "x": x, "y": y, "n": n, "p": RC.pkey(p)}, bulk=True)

    def reject_body(ctx):
        st = ctx.choose(strategies + ["function:interp-float"], "strategy")
        n = ctx.choose([1, 0, -1, 1.5, -64, 1.999], "n")
        g = ctx.choose([(0, 1), (0, 1, 3), (0, 2, 3, 7)], "grid")
        judge(ctx, check_reject, {"strategy": st, "x": list(g), "y": list(range(len(g))), "n": n, "p": {}})

    def alln_body(ctx):
        # the quantifier says n in 2..64: every n for a few grids (uniform integer, 1 + 0.3 k, non-uniform)
        st = ctx.choose(strategies, "strategy")
        x = ctx.choose([[0.0, 1.0, 2.0], [1.0, 1.3, 1.6, 1.9, 2.2], [0.0, 1.0, 4.0, 4.5, 6.5], [0.1 * k for k in range(4)]], "grid")
        for n in range(2, 65):
            judge(ctx, check_structure, {"strategy": st, "x": x, "y": _patterns(len(x))[2], "n": n, "p": {}}, bulk=True)

    return [{"name": "every-n-2..64", "body": alln_body}, {"name": "structure", "body": body}, {"name": "structure-long", "body": long_body},
            {"name": "reject-n<2", "body": reject_body}]
