"""C17 - array helpers, interval view and block averaging keep their contracts (E1)."""
import itertools
import math

import numpy as np

from mc import alphabets as A
from mc.harness import kind, fail, judge, replay  # noqa: F401

PROPERTY = "C17"
RULE = ("arrays of length 1..6 (all strictly increasing over {0..7}; all of V^k for value helpers) and structured "
        "arrays up to length 50 x n=1..16 x directions x explicit end values; IntervalArray: every length 1..24 x "
        "interval size 1..8, every [i, j] read and write; average for every (length, interval). Signature = "
        "(helper, shape parameters, digest of the output); non-trivial = output differs from the input array")
ASSUMPTIONS = ["np.linspace / np.insert / np.pad are trusted black boxes; linear fills are compared with exact "
               "rational expectations to 1e-12 relative",
               "extend_linspace's default end values are only defined for len(a) > n (the code indexes a[n])"]
ANCHORS = {"sorted_array_utils.py": [(8, 233), (236, 315), (552, 576)], "interval.py": [(56, 97), (154, 365)],
           "process.py": [(319, 321)]}
FORMS_HARNESSES = "all"
FORMS_EXCLUDE = {"long-arrays": ["readonly"], "interval-histories": ["readonly"], "interval-view": ["readonly"]}   # the interval view writes through to the array it was given: refusing a read-only array is correct
EXPLANATION = "literal list-code contracts evaluated on every element of a bounded input lattice"


def bounds(tier, seed):
    return {"array_len": "1..6 exhaustive + structured to 50", "n": "1..16", "interval_len": "1..24",
            "interval_size": "1..8"}


def _S():
    import traffic_weaver.sorted_array_utils as S
    return S


def _close_seq(got, exp, tol=1e-12):
    got = [float(v) for v in got]
    exp = [float(v) for v in exp]
    if len(got) != len(exp):
        return False
    return all(abs(g - e) <= tol * max(1.0, abs(g), abs(e)) for g, e in zip(got, exp))


def _dig(a):
    a = np.asarray(a, dtype=float)
    return hash(a.tobytes()) & 0xffffffff


@kind("oversample")
def check_oversample(case):
    S = _S()
    a = case["a"]
    n = case["n"]
    fails = []
    arr = np.array(a, dtype=case.get("dtype", "float64"))
    keep = arr.copy()
    lin = S.oversample_linspace(arr, n)
    pc = S.oversample_piecewise_constant(arr, n)
    if not A.same_bytes(arr, keep):
        fails.append(fail("input-mutated", None, {"helper": "oversample"}))
    m = len(a)
    if n < 2:
        if list(np.asarray(lin)) != list(a) or list(np.asarray(pc)) != list(a):
            fails.append(fail("oversample-n<2-identity", {"lin": lin, "pc": pc}, {"helper": "oversample"}))
        return fails, ("id", m, n)
    L = (m - 1) * n + 1
    if not isinstance(lin, np.ndarray) or lin.ndim != 1 or len(lin) != L:
        fails.append(fail("linspace-length", {"len": len(lin), "expected": L}, {"helper": "oversample_linspace"}))
    else:
        if [float(v) for v in lin[::n]] != [float(v) for v in a]:
            fails.append(fail("linspace-originals", {"got": lin[::n]}, {"helper": "oversample_linspace"}))
        exp = []
        for k in range(m - 1):
            for i in range(n):
                exp.append(a[k] + (a[k + 1] - a[k]) * i / n)
        exp.append(a[-1])
        if not _close_seq(lin, exp):
            fails.append(fail("linspace-fill", {"got": lin, "expected": exp}, {"helper": "oversample_linspace"}))
    if not isinstance(pc, np.ndarray) or pc.ndim != 1 or len(pc) != L:
        fails.append(fail("piecewise-length", {"len": len(pc), "expected": L}, {"helper": "oversample_piecewise_constant"}))
    else:
        exp = []
        for k in range(m - 1):
            exp.extend([a[k]] * n)
        exp.append(a[-1])
        if [float(v) for v in pc] != [float(v) for v in exp]:
            fails.append(fail("piecewise-fill", {"got": pc, "expected": exp}, {"helper": "oversample_piecewise_constant"}))
    return fails, (m, n, _dig(lin), _dig(pc))


@kind("extend")
def check_extend(case):
    S = _S()
    a = case["a"]
    n = case["n"]
    d = case["direction"]
    lstart = case.get("lstart")
    rstop = case.get("rstop")
    arr = np.array(a, dtype=case.get("dtype", "float64"))
    keep = arr.copy()
    fails = []
    kw = {}
    if lstart is not None:
        kw["lstart"] = lstart
    if rstop is not None:
        kw["rstop"] = rstop
    lin = S.extend_linspace(arr, n, direction=d, **kw)
    con = S.extend_constant(arr, n, direction=d)
    if not A.same_bytes(arr, keep):
        fails.append(fail("input-mutated", None, {"helper": "extend"}))
    left = d in ("both", "left")
    right = d in ("both", "right")
    L = len(a) + n * (int(left) + int(right))
    for name, res in (("extend_linspace", lin), ("extend_constant", con)):
        if not isinstance(res, np.ndarray) or res.ndim != 1 or len(res) != L:
            fails.append(fail("extend-length", {"len": len(res), "expected": L}, {"helper": name}))
            return fails, None
        mid = res[n if left else 0: (len(res) - n) if right else len(res)]
        if [float(v) for v in mid] != [float(v) for v in a]:
            fails.append(fail("extend-middle", {"got": mid}, {"helper": name}))
    # constant
    if left and [float(v) for v in con[:n]] != [float(a[0])] * n:
        fails.append(fail("extend-constant-left", {"got": con[:n]}, {"helper": "extend_constant"}))
    if right and [float(v) for v in con[len(con) - n:]] != [float(a[-1])] * n:
        fails.append(fail("extend-constant-right", {"got": con[len(con) - n:]}, {"helper": "extend_constant"}))
    # linear: documented default end values a[0]-(a[n]-a[0]) and a[-1]+(a[-1]-a[-1-n])
    if left:
        ls = lstart if lstart is not None else 2 * a[0] - a[n]
        exp = [ls + (a[0] - ls) * i / n for i in range(n)]
        if not _close_seq(lin[:n], exp):
            fails.append(fail("extend-linspace-left", {"got": lin[:n], "expected": exp},
                              {"helper": "extend_linspace", "default": lstart is None}))
    if right:
        rs = rstop if rstop is not None else 2 * a[-1] - a[-n - 1]
        exp = [a[-1] + (rs - a[-1]) * i / n for i in range(1, n + 1)]
        if not _close_seq(lin[len(lin) - n:], exp):
            fails.append(fail("extend-linspace-right", {"got": lin[len(lin) - n:], "expected": exp},
                              {"helper": "extend_linspace", "default": rstop is None}))
    return fails, (len(a), n, d, lstart is None, rstop is None, _dig(lin), _dig(con))


@kind("append")
def check_append(case):
    S = _S()
    x, y, per = case["x"], case["y"], case["periodic"]
    ax = np.array(x, dtype=case.get("dtype", "float64")) if case.get("as_array", True) else list(x)
    ay = np.array(y, dtype=case.get("dtype", "float64")) if case.get("as_array", True) else list(y)
    kx, ky = np.array(ax).copy(), np.array(ay).copy()
    rx, ry = S.append_one_sample(ax, ay, make_periodic=per)
    fails = []
    if not (A.same_bytes(np.array(ax), kx) and A.same_bytes(np.array(ay), ky)):
        fails.append(fail("input-mutated", None, {"helper": "append_one_sample"}))
    ex = [float(v) for v in x] + [float(2 * x[-1] - x[-2])]
    ey = [float(v) for v in y] + [float(y[0] if per else y[-1])]
    ok = (isinstance(rx, np.ndarray) and isinstance(ry, np.ndarray) and rx.dtype == np.float64 and ry.dtype == np.float64
          and [float(v) for v in rx] == ex and [float(v) for v in ry] == ey)
    if not ok:
        fails.append(fail("append", {"got": [rx, ry], "expected": [ex, ey]}, {"helper": "append_one_sample", "periodic": per}))
    return fails, (len(x), per, _dig(rx), _dig(ry))


@kind("interval")
def check_interval(case):
    from traffic_weaver.interval import IntervalArray
    L, n = case["L"], case["n"]
    base = [float((7 * i) % 11 + i) for i in range(L)]
    fails = []
    ia = IntervalArray(np.array(base), n)
    key = {"helper": "IntervalArray"}
    if len(ia) != L:
        fails.append(fail("len", len(ia), key))
    if ia.nr_of_full_intervals() != L // n:
        fails.append(fail("nr_of_full_intervals", ia.nr_of_full_intervals(), key))
    # reads and writes, every (i, j) whose flat index exists (j may reach into neighbours, incl. negative)
    for i in range(0, L // n + 2):
        for j in range(-n, 2 * n + 1):
            f = i * n + j
            if 0 <= f < L:
                if float(ia[i, j]) != base[f]:
                    fails.append(fail("getitem", {"i": i, "j": j, "got": ia[i, j], "expected": base[f]}, key))
    if float(ia[L - 1]) != base[L - 1]:
        fails.append(fail("getitem-flat", None, key))
    for i in range(0, L // n + 1):
        for j in range(0, n):
            f = i * n + j
            if 0 <= f < L:
                ib = IntervalArray(np.array(base), n)
                ib[i, j] = -99.5
                exp = list(base)
                exp[f] = -99.5
                if [float(v) for v in ib.array] != exp:
                    fails.append(fail("setitem", {"i": i, "j": j}, key))
    # row-major layout with NaN padding
    m = -(-L // n)
    t = ia.to_2d_array()
    exp = [[base[r * n + c] if r * n + c < L else math.nan for c in range(n)] for r in range(m)]
    if t.shape != (m, n) or not np.array_equal(t, np.array(exp).reshape(m, n), equal_nan=True):
        fails.append(fail("to_2d_array", {"got": t, "expected": exp}, key))
    for drop in (True, False):
        c = ia.to_2d_array_closed_intervals(drop_last=drop)
        expc = [row + [exp[r + 1][0] if r + 1 < m else math.nan] for r, row in enumerate(exp)]
        if drop:
            expc = expc[:-1]
        expc = np.array(expc, dtype=float).reshape(len(expc), n + 1)
        if c.shape != expc.shape or not np.array_equal(c, expc, equal_nan=True):
            fails.append(fail("to_2d_array_closed_intervals", {"drop_last": drop, "got": c, "expected": expc}, key))
    # oversampling through the view
    for num in (2, 3):
        o = ia.oversample_linspace(num)
        p = ia.oversample_piecewise(num)
        if o.n != n * num or p.n != n * num or len(o) != (L - 1) * num + 1 or len(p) != (L - 1) * num + 1:
            fails.append(fail("interval-oversample-shape", {"num": num, "n": [o.n, p.n], "len": [len(o), len(p)]}, key))
        elif [float(v) for v in o.array[::num]] != base or [float(v) for v in p.array[::num]] != base:
            fails.append(fail("interval-oversample-originals", {"num": num}, key))
    # extend through the view (one interval per side)
    if L > n:
        e = IntervalArray(np.array(base), n)
        e.extend_constant()
        if [float(v) for v in e.array] != [base[0]] * n + base + [base[-1]] * n:
            fails.append(fail("interval-extend-constant", None, key))
        e = IntervalArray(np.array(base), n)
        e.extend_linspace()
        ls = 2 * base[0] - base[n]
        rs = 2 * base[-1] - base[-n - 1]
        expx = [ls + (base[0] - ls) * i / n for i in range(n)] + base + [base[-1] + (rs - base[-1]) * i / n for i in range(1, n + 1)]
        if not _close_seq(e.array, expx):
            fails.append(fail("interval-extend-linspace", {"got": e.array, "expected": expx}, key))
    return fails, (L, n, L % n == 0)


@kind("average")
def check_average(case):
    from traffic_weaver.process import average
    x, y, n = case["x"], case["y"], case["n"]
    ax, ay = np.array(x, dtype=float), np.array(y, dtype=float)
    kx, ky = ax.copy(), ay.copy()
    rx, ry = average(ax, ay, n)
    fails = []
    key = {"helper": "average"}
    if not (A.same_bytes(ax, kx) and A.same_bytes(ay, ky)):
        fails.append(fail("input-mutated", None, key))
    m = -(-len(x) // n)
    ex = [float(x[r * n]) for r in range(m)]
    rows = [y[r * n:(r + 1) * n] for r in range(m)]
    ey = [math.fsum(row) / len(row) for row in rows]
    if [float(v) for v in rx] != ex:
        fails.append(fail("average-x", {"got": rx, "expected": ex}, key))
    # each row's mean, to rounding relative to the magnitude of THAT row
    if len(ry) != m or any(abs(float(g) - e) > 1e-12 * max(abs(v) for v in row) + 1e-300 for g, e, row in zip(ry, ey, rows)):
        fails.append(fail("average-y", {"got": ry, "expected": ey}, key))
    return fails, (len(x), n, _dig(ry))


@kind("roundtrip")
def check_roundtrip(case):
    from traffic_weaver.process import average
    S = _S()
    x, y, n = case["x"], case["y"], case["n"]
    xs = S.oversample_linspace(np.array(x, dtype=float), n)
    ys = S.oversample_piecewise_constant(np.array(y, dtype=float), n)
    rx, ry = average(xs, ys, n)
    fails = []
    if [float(v) for v in rx] != [float(v) for v in x] or not _close_seq(ry, y):
        fails.append(fail("average-roundtrip", {"got": [rx, ry], "expected": [x, y]}, {"helper": "average"}))
    return fails, (len(x), n)


@kind("average-long")
def check_average_long(case):
    from mc.harness import shrink
    L, n = case["L"], case["n"]
    x = A.long_grid(L, "gaps")
    y = [float((5 * i) % 7 - 2) + 0.01 * i for i in range(L)]      # not stationary: a misaligned block shows
    fails, sig = check_average({"x": x, "y": y, "n": n})
    return shrink(fails, long=True), sig


@kind("roundtrip-long")
def check_roundtrip_long(case):
    from mc.harness import shrink
    m, n = case["m"], case["n"]
    fails, sig = check_roundtrip({"x": A.long_grid(m, "gaps"), "y": [float((3 * i) % 5 - 1) + 0.5 * i for i in range(m)], "n": n})
    return shrink(fails, long=True), sig


@kind("integrals")
def check_integrals(case):
    S = _S()
    x, y = case["x"], case["y"]
    ax, ay = np.array(x, dtype=float), np.array(y, dtype=float)
    fails = []
    key = {"helper": "integral"}
    er = [y[i] * (x[i + 1] - x[i]) for i in range(len(x) - 1)]
    et = [(y[i] + y[i + 1]) / 2 * (x[i + 1] - x[i]) for i in range(len(x) - 1)]
    if not _close_seq(S.rectangle_integral(ax, ay), er) or not _close_seq(S.integral(ax, ay, "rectangle"), er):
        fails.append(fail("rectangle", {"expected": er}, key))
    if not _close_seq(S.trapezoid_integral(ax, ay), et) or not _close_seq(S.integral(ax, ay, "trapezoid"), et) \
            or not _close_seq(S.integral(ax, ay), et):
        fails.append(fail("trapezoid", {"expected": et}, key))
    # range sums for every increasing index tuple of length 2..3 over 0..len
    vals = np.array(er, dtype=float)
    for k in (2, 3):
        for idx in itertools.combinations(range(len(er) + 1), k):
            got = S.sum_over_indices(vals, np.array(idx))
            exp = [sum(er[a:b]) for a, b in zip(idx[:-1], idx[1:])]
            if not _close_seq(got, exp):
                fails.append(fail("sum_over_indices", {"idx": idx, "got": got, "expected": exp}, key))
    return fails, (len(x), _dig(er), _dig(et))


IV_OPS = [("read-layout",), ("read-closed", True), ("read-closed", False), ("write", 0, 0, -7.5), ("write", 1, 0, 4.25),
          ("write", 0, 1, 9.0), ("write-flat", 2, -1.0), ("extend-constant",), ("extend-linspace",), ("read-items",),
          ("write-flat", -1, 6.5), ("write", -1, 0, 2.5), ("write", 1, -1, 3.5)]


@kind("interval-history")
def check_interval_history(case):
    """the interval view is a mutable object: after ANY sequence of reads, writes and extensions every
    read (item access, 2-D layout, closed-interval layout, length) agrees with a plain list model"""
    from traffic_weaver.interval import IntervalArray
    L, n, ops = case["L"], case["n"], case["ops"]
    model = [float((7 * i) % 11 + i) for i in range(L)]
    ia = IntervalArray(np.array(model), n)
    key = {"helper": "IntervalArray-history"}
    fails = []

    def layout(m):
        rows = -(-len(m) // n)
        return [[m[r * n + c] if r * n + c < len(m) else math.nan for c in range(n)] for r in range(rows)]
    for step, op in enumerate(ops):
        op = tuple(op)
        if op[0] == "write":
            f = op[1] * n + op[2]             # [i, j] <-> flat i*n+j, negative = from the end (list semantics)
            if not (-len(model) <= f < len(model)):
                continue
            ia[op[1], op[2]] = op[3]
            model[f] = op[3]
        elif op[0] == "write-flat":
            if not (-len(model) <= op[1] < len(model)):
                continue
            ia[op[1]] = op[2]
            model[op[1]] = op[2]
        elif op[0] == "extend-constant":
            if len(model) + 2 * n > 64:
                continue
            ia.extend_constant()
            model = [model[0]] * n + model + [model[-1]] * n
        elif op[0] == "extend-linspace":
            if len(model) <= n or len(model) + 2 * n > 64:
                continue
            ls = 2 * model[0] - model[n]
            rs = 2 * model[-1] - model[-n - 1]
            ia.extend_linspace()
            model = [ls + (model[0] - ls) * i / n for i in range(n)] + model + [model[-1] + (rs - model[-1]) * i / n for i in range(1, n + 1)]
        # every observation after every step
        got = ia.to_2d_array()
        exp = np.array(layout(model), dtype=float).reshape(-1, n)
        if got.shape != exp.shape or not np.allclose(got, exp, rtol=1e-12, atol=1e-12, equal_nan=True):
            fails.append(fail("layout-after-history", {"step": step, "op": op, "observed": got, "expected": exp}, key))
            break
        if len(model) > n:
            c = ia.to_2d_array_closed_intervals(drop_last=False)
            e2 = np.array([row + [exp[r + 1][0] if r + 1 < len(exp) else math.nan] for r, row in enumerate(exp.tolist())], dtype=float)
            if c.shape != e2.shape or not np.allclose(c, e2, rtol=1e-12, atol=1e-12, equal_nan=True):
                fails.append(fail("closed-layout-after-history", {"step": step, "op": op}, key))
                break
        if len(ia) != len(model) or not _close_seq([ia[i // n, i % n] for i in range(len(model))], model):
            fails.append(fail("items-after-history", {"step": step, "op": op}, key))
            break
    return fails, (L, n, tuple(tuple(o) for o in ops))


def _structured(L):
    return [tuple(range(L)), tuple(i * i for i in range(L)), tuple(3 * i + (i % 3) for i in range(L)),
            tuple(-5 + i // 2 for i in range(L))]


def harnesses(tier, seed):
    quick = tier == "quick"
    inc = A.inc_arrays(7, 1, 5 if quick else 6)
    vals = [t for k in range(1, 5) for t in itertools.product(A.VPM, repeat=k)]
    long_lens = [7, 12, 25, 50] if quick else list(range(7, 51))
    ns = list(range(1, 17))

    def b_oversample(ctx):
        fam = ctx.choose(["inc", "values", "long"], "family")
        if fam == "inc":
            a = ctx.choose(inc, "a")
        elif fam == "values":
            a = ctx.choose(vals, "a")
        else:
            L = ctx.choose(long_lens, "L")
            a = ctx.choose(_structured(L), "pattern")
        dt = ctx.choose(["float64", "int64"], "dtype")
        for n in ns:
            judge(ctx, check_oversample, {"a": list(a), "n": n, "dtype": dt}, calls=2, bulk=True,
                  nontrivial=lambda s: s[0] != "id")
        if fam == "inc" and len(a) == 3:
            ctx.sample({"helper": "oversample", "a": list(a), "n": "1..16"})

    ext_ns = list(range(1, 9)) if quick else ns

    def b_extend(ctx):
        fam = ctx.choose(["inc", "values", "long"], "family")
        if fam == "inc":
            a = ctx.choose(inc, "a")
        elif fam == "values":
            a = ctx.choose(vals, "a")
        else:
            L = ctx.choose(long_lens, "L")
            a = ctx.choose(_structured(L), "pattern")
        d = ctx.choose(["both", "left", "right"], "direction")
        for n in ext_ns:
            ends = [(-3.0, 11.5), (a[0] - 1, a[-1] + 1), (a[0] - 0.25, a[-1] + 4), (0.0, 0.0), (0, 0), (-0.0, a[-1] + 1)]
            if len(a) > n:
                ends.insert(0, (None, None))
                ends.append((None, a[-1] + 2))
                ends.append((a[0] - 2, None))
            for (ls, rs) in ends:
                judge(ctx, check_extend, {"a": list(a), "n": n, "direction": d, "lstart": ls, "rstop": rs}, calls=2,
                      bulk=True)
        if fam == "inc" and len(a) == 4 and d == "both":
            ctx.sample({"helper": "extend", "a": list(a), "direction": d})

    def b_append(ctx):
        x = ctx.choose([a for a in inc if len(a) >= 2] + [tuple(v / 3 for v in a) for a in inc if 2 <= len(a) <= 3], "x")
        per = ctx.choose([False, True], "periodic")
        as_array = ctx.choose([True, False], "as_array")
        dt = ctx.choose(["float64", "int64"], "dtype")
        if dt == "int64" and any(float(v) != int(v) for v in x):
            return
        for y in itertools.product(A.VPM, repeat=len(x)) if len(x) <= 4 else A.spanning_values(len(x)):
            judge(ctx, check_append, {"x": list(x), "y": list(y), "periodic": per, "as_array": as_array, "dtype": dt},
                  bulk=True)

    def b_interval(ctx):
        L = ctx.choose(list(range(1, 25)), "L")
        n = ctx.choose(list(range(1, 9)), "n")
        judge(ctx, check_interval, {"L": L, "n": n}, calls=2 * L + 12)
        if (L, n) == (10, 4):
            ctx.sample({"helper": "IntervalArray", "L": L, "n": n})

    def b_average(ctx):
        L = ctx.choose(list(range(1, 25 if quick else 41)), "L")
        n = ctx.choose(list(range(1, 17)), "n")
        for pat in range(5):
            x = [0.5 * i + (i % 3) * 0.125 for i in range(L)]
            y = [float((5 * i + pat * 3) % 7 - 2 * pat) for i in range(L)]
            if pat == 3:      # one huge early sample: every later block's mean must be unaffected by it
                y = [1e12] + [float((5 * i) % 7 + 1) for i in range(1, L)]
            if pat == 4:
                y = [float((5 * i) % 7 + 1) * (1e-9 if i >= L // 2 else 1e7) for i in range(L)]
            judge(ctx, check_average, {"x": x, "y": y, "n": n}, bulk=True)

    def b_roundtrip(ctx):
        x = ctx.choose([a for a in inc if len(a) >= 2], "x")
        n = ctx.choose(list(range(2, 17)), "n")
        for y in (itertools.product(A.VPM, repeat=len(x)) if len(x) <= 3 else A.spanning_values(len(x))):
            judge(ctx, check_roundtrip, {"x": list(x), "y": list(y), "n": n}, calls=3, bulk=True)

    def b_integrals(ctx):
        x = ctx.choose([a for a in inc if len(a) >= 2], "x")
        img = ctx.choose([1.0, 0.5, 0.1, "tiny", "jitter"], "scale")
        xi = A.ximage(x, img) if isinstance(img, str) else [v * img for v in x]
        for y in (itertools.product(A.VPM, repeat=len(x)) if len(x) <= 4 else A.spanning_values(len(x))):
            judge(ctx, check_integrals, {"x": xi, "y": list(y)}, calls=5, bulk=True)

    def b_interval_history(ctx):
        L = ctx.choose([5, 8, 9, 12], "L")
        n = ctx.choose([2, 3, 4], "n")
        ops = []
        for d in range(3):
            ops.append(ctx.choose(IV_OPS, "op%d" % d))
        judge(ctx, check_interval_history, {"L": L, "n": n, "ops": [list(o) for o in ops]}, calls=4 * len(ops))

    lsizes = A.sizes(40, 2300 if quick else 70000)
    thresholds = sorted(set([64, 128, 256, 512, 1024] + A.code_constants(lo=16, hi=(2300 if quick else 70000), exclude="datasets")))

    def b_long(ctx):
        what = ctx.choose(["average", "roundtrip", "interval-view"], "what")
        n = ctx.choose(list(range(1, 18)) + [31, 32, 33, 64], "n")
        if what == "average":
            for L in lsizes:
                if L > 40:
                    judge(ctx, check_average_long, {"L": L, "n": n}, bulk=True)
        elif what == "roundtrip":
            if n < 2:
                return
            for c in thresholds:
                for m in sorted({c // n + 1, c // n + 2, c // n + 3, 2 * c // n + 2}):     # m*n crosses the threshold
                    if m >= 2:
                        judge(ctx, check_roundtrip_long, {"m": m, "n": n}, calls=3, bulk=True)
        else:
            for L in lsizes:
                if 40 < L <= 1100:
                    judge(ctx, check_interval, {"L": L, "n": n}, calls=2 * L + 12, bulk=True)

    return [{"name": "long-arrays", "body": b_long,
             "bound_text": "lengths %s and oversampled lengths just above %s; interval sizes 1..17, 31..33, 64" % ([v for v in lsizes if v > 40], thresholds)},
            {"name": "interval-histories", "body": b_interval_history},
            {"name": "oversample", "body": b_oversample}, {"name": "extend", "body": b_extend},
            {"name": "append", "body": b_append}, {"name": "interval-view", "body": b_interval},
            {"name": "average", "body": b_average}, {"name": "average-roundtrip", "body": b_roundtrip},
            {"name": "integrals", "body": b_integrals}]
