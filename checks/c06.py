"""C06 - transitions follow the documented geometry and shape functions (E1)."""
import itertools
from fractions import Fraction as F

import numpy as np

from mc import alphabets as A
from mc.harness import kind, fail, judge
from mc.harness import replay as _replay
from mc.refmodel import rfa as RR
from checks import rfacommon as RC
from checks import windowcommon as W

PROPERTY = "C06"
PREFIX = "C06"
RULE = ("the C05 space with adaptive smoothing fixed at 1: every recreated sample compared with a docstring-derived "
        "per-sample reference model (border value = linear interpolation at the border between the plateau ends; "
        "straight line, or linear piece then lin/power blend; adaptive windows split by the jump ratio, clipped, "
        "truncated); plus the five shape functions on a lattice of abscissae x end values x 7 exponents. "
        "Signature = (strategy, n, rounded output); non-trivial = output not constant")
ASSUMPTIONS = ["samples of the last interval's right transition and the final sample depend on the undocumented geometry "
               "of the virtual interval behind the last point and are not compared with the reference (C05 still bounds them)",
               "adaptive window truncation: where the exact window value is within 1e-9 of an integer both truncations are accepted",
               "sample values of the reference are computed in floating point in the enumeration (windows exactly); "
               "tolerance 1e-9", "exp_lin / lin_exp_xy closed forms are taken as t*lin+(1-t)*exp and t*exp_xy+(1-t)*lin, "
               "the reading pinned by the shipped doctests"]
ANCHORS = {"funfit.py": [(36, 38), (72, 74), (109, 111), (150, 154), (192, 196)],
           "rfa.py": [(270, 280), (428, 460), (481, 500), (648, 669), (817, 851)]}
FORMS_HARNESSES = "all"
FORMS_SKIP_QUICK = ("long-series",)   # long inputs under every form: thorough tier only (cost)
EXPLANATION = "agreement with an independent reference model on every element of a bounded lattice"


def bounds(tier, seed):
    q = tier == "quick"
    return {"y": "V^5 (lin), {0,1,3}^5 (exp)" if q else "V^5", "x_patterns": 2 if q else 4,
            "n": [2, 3, 5, 8] if q else RC.NS_CORE, "shape_lattice": "9 abscissae, V+-^2, 7 exponents"}


def replay(case):
    if case.get("kind") in ("window", "window-long"):
        return W.only(PREFIX, _replay(dict(case, which="C06")))
    return _replay(case)


def _judge(ctx, case):
    case = dict(case, kind="window", which="C06")
    fails, sig = W.check_window(case)
    ctx.call(1)
    ctx.bulk(1)
    for f in W.only(PREFIX, fails):
        ctx.fail(f["clause"], case, f.get("detail"), f.get("key"))
    if sig is not None:
        if sig[3]:
            ctx.note("boundary_ambiguous")
        ctx.outcome(sig[:3], nontrivial=len(set(sig[2])) > 1)


SHAPES = ["lin_fit", "exp_fit", "exp_xy_fit", "exp_lin_fit", "lin_exp_xy_fit"]
REF = {"lin_fit": lambda x, p0, p1, e: RR.lin(x, p0, p1), "exp_fit": RR.exp_, "exp_xy_fit": RR.exp_xy,
       "exp_lin_fit": RR.exp_lin, "lin_exp_xy_fit": RR.lin_exp_xy}


@kind("shape")
def check_shape(case):
    import traffic_weaver.funfit as FF
    fn, x0, x1, y0, y1, e = case["fn"], case["x0"], case["x1"], case["y0"], case["y1"], case["e"]
    f = getattr(FF, fn)
    key = {"fn": fn}
    fails = []
    e_impl = e if isinstance(e, int) else float(e)
    e_ref = e if isinstance(e, int) else (int(e) if float(e) == int(float(e)) else F(e))
    pts = case["xs"]
    vals = []
    for x in pts:
        args = (float(x), (float(x0), float(y0)), (float(x1), float(y1)))
        got = f(*args) if fn == "lin_fit" else f(*args, alpha=e_impl)
        exp = REF[fn](F(x), (F(x0), F(y0)), (F(x1), F(y1)), e_ref)
        sc = max(1.0, abs(float(y0)), abs(float(y1)))
        vals.append(round(float(got), 9))
        if abs(float(got) - float(exp)) > 1e-9 * sc:
            fails.append(fail("closed-form", {"x": x, "observed": got, "expected": float(exp)}, key))
            break
        if F(x) == F(x0) and abs(float(got) - float(y0)) > 1e-12 * sc:
            fails.append(fail("start-point", {"observed": got, "expected": y0}, key))
        if F(x) == F(x1) and abs(float(got) - float(y1)) > 1e-12 * sc:
            fails.append(fail("end-point", {"observed": got, "expected": y1}, key))
    if case.get("default_exp") and fn != "lin_fit":
        x = pts[len(pts) // 2]
        args = (float(x), (float(x0), float(y0)), (float(x1), float(y1)))
        if abs(f(*args) - f(*args, alpha=2.0)) > 0:
            fails.append(fail("default-exponent", None, key))
    return fails, (fn, float(e), tuple(vals))


def harnesses(tier, seed):
    quick = tier == "quick"
    xpats = [W.XPATTERNS[0], W.XPATTERNS[1 + seed % 3]] if quick else W.XPATTERNS
    ns = [2, 3, 5, 8] if quick else RC.NS_CORE
    ys_lin = list(itertools.product(A.V, repeat=5))
    ys_exp = list(itertools.product((0, 1, 3), repeat=5)) if quick else ys_lin

    def psets(st, n):
        if quick:
            return RC.param_sets(st, n, alphas=[F(1, 2), F(3, 4), F(1)], betas=[F(0), F(1, 4), F(1, 2), F(1)],
                                 exps=[F(1, 2), 1, 2, 3] if st == "expfix" else [F(1, 2), 2, 3], smooths=[1])
        return RC.param_sets(st, n, smooths=[1])

    def body(ctx):
        st = ctx.choose(RC.WINDOW, "strategy")
        xp = ctx.choose(xpats, "x")
        n = ctx.choose(ns, "n")
        p = ctx.choose(psets(st, n), "params")
        for y in (ys_lin if st.startswith("lin") else ys_exp):
            yi = sum(y)
            _judge(ctx, {"strategy": st, "x": list(xp), "y": list(y), "n": n, "p": RC.pkey(p),
                         "y_off": float(2 ** 40) if yi % 7 == 3 else 0, "twice": yi % 5 == 1,
                         "x_img": (None, None, "tiny", None, "jitter", None)[yi % 6], "poison": yi % 4 == 2})
        if n == 5 and xp == W.XPATTERNS[0] and st == "expada" and p.get("exp") == 2 and p.get("alpha") == 1:
            ctx.sample({"strategy": st, "x": list(xp), "n": n, "p": RC.pkey(p), "y": "all of the value lattice ^5"})

    def exact_body(ctx):
        # a slice with the reference in exact rational arithmetic (integer exponents), incl. float x images
        st = ctx.choose(RC.WINDOW, "strategy")
        img = ctx.choose([lambda v: F(v), lambda v: F(v, 3) + F(1, 7)], "image")
        n = ctx.choose([3, 4] if quick else [2, 3, 4, 8], "n")
        p = ctx.choose(RC.param_sets(st, n, alphas=[F(3, 4), F(1)], betas=[F(1, 2)], exps=[2, 3], smooths=[1],
                                     explicit_a=not quick), "params")
        x = [float(img(v)) for v in W.XPATTERNS[1]]
        for y in itertools.product((0, 1, 3), repeat=5):
            _judge(ctx, {"strategy": st, "x": x, "y": list(y), "n": n, "p": RC.pkey(p), "exact": True})

    lat = [F(i, 2) for i in range(0, 9)]

    def shape_body(ctx):
        fn = ctx.choose(SHAPES, "fn")
        e = ctx.choose([F(1, 10), F(1, 2), 1, F(3, 2), 2, 3, 5], "exponent")
        x0i = ctx.choose(len(lat) - 1, "x0")
        for x1i in range(x0i + 1, len(lat)):
            pts = lat[x0i:x1i + 1]
            if len(pts) < 3:
                pts = [lat[x0i], (lat[x0i] + lat[x1i]) / 2, lat[x1i]]
            for y0, y1 in itertools.product(A.VPM, repeat=2):
                judge(ctx, check_shape, {"fn": fn, "x0": lat[x0i], "x1": lat[x1i], "y0": y0, "y1": y1,
                                         "e": e if isinstance(e, int) else float(e), "xs": pts,
                                         "default_exp": e == 2}, calls=len(pts), bulk=True)

    lsizes = W.long_sizes(quick)

    def long_body(ctx):
        st = ctx.choose(RC.WINDOW, "strategy")
        gk = ctx.choose(["uniform", "gaps", "late-gap"], "grid")
        n = ctx.choose([2, 5, 12] if quick else [2, 5, 12, 33], "n")
        yp = ctx.choose(["saw", "steps"], "y")
        ps = RC.param_sets(st, n, alphas=[F(3, 4), F(1)], betas=[F(1, 2)], exps=[2], smooths=[1], explicit_a=False)
        for m in lsizes:
            if m * n > (6000 if quick else 60000):
                continue
            for p in ps:
                case = {"kind": "window-long", "which": "C06", "len": m, "grid": gk, "ypattern": yp, "strategy": st, "n": n, "p": RC.pkey(p)}
                fails, sig = W.check_window_long(case)
                ctx.call(1)
                ctx.bulk(1)
                for f in W.only(PREFIX, fails):
                    ctx.fail(f["clause"], case, f.get("detail"), f.get("key"))
                if sig is not None:
                    if sig[3]:
                        ctx.note("boundary_ambiguous")
                    ctx.outcome(sig[:3])

    return [W.every_n_harness("C06", PREFIX, quick), W.derived_threshold_harness("C06", PREFIX, quick), {"name": "long-series", "body": long_body,
             "bound_text": "every length 3..%d, 2^k+1 and around every integer constant of the code up to %d" % (40 if quick else 72, lsizes[-1])},
            {"name": "per-sample-reference", "body": body}, {"name": "exact-reference-slice", "body": exact_body},
            {"name": "shape-functions", "body": shape_body}]
