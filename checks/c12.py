"""C12 - repeat is a periodic extension with the original spacing (E1)."""
import itertools
from fractions import Fraction as F

import numpy as np

from mc import alphabets as A
from mc.harness import kind, fail, judge, replay  # noqa: F401

PROPERTY = "C12"
RULE = ("series on G(7,k), k=2..5/6, 3 abscissa images, int/float dtype, list/array input x r=1..12 x all factor pairs "
        "ab<=12 x {process.repeat, Weaver.repeat}. Signature = (path, len, r, digest of x); non-trivial = r > 1")
ASSUMPTIONS = ["spacing clauses are exact on dyadic grids and 1e-9-relative on the non-dyadic image"]
ANCHORS = {"process.py": [(112, 120)], "weaver.py": [(580, 582)]}
EXPLANATION = "definition of the periodic extension evaluated on every element of a bounded lattice"


def bounds(tier, seed):
    return {"k": "2..5" if tier == "quick" else "2..6", "r": "1..12", "factor_pairs": "ab<=12"}


def _rep(path, x, y, r, dtype, as_list):
    if path == "process":
        from traffic_weaver.process import repeat
        xi = list(x) if as_list else np.array(x, dtype=dtype)
        yi = list(y) if as_list else np.array(y, dtype=dtype)
        keep = (np.array(xi).copy(), np.array(yi).copy())
        rx, ry = repeat(xi, yi, r)
        same = A.same_bytes(np.array(xi), keep[0]) and A.same_bytes(np.array(yi), keep[1])
        return rx, ry, None, same
    from traffic_weaver import Weaver
    xi, yi = np.array(x, dtype=dtype), np.array(y, dtype=dtype)
    keep = (xi.copy(), yi.copy())
    wv = Weaver(xi, yi).repeat(r)
    same = A.same_bytes(xi, keep[0]) and A.same_bytes(yi, keep[1])
    return wv.get()[0], wv.get()[1], wv.get_reference(), same


@kind("repeat")
def check_repeat(case):
    x, y, r, path, dtype, as_list, exact = (case[k] for k in ("x", "y", "r", "path", "dtype", "as_list", "exact"))
    key = {"path": path}
    try:
        rx, ry, ref, same = _rep(path, x, y, r, dtype, as_list)
    except Exception as e:  # noqa
        return [fail("raised", {"exception": repr(e)}, dict(key, exc=type(e).__name__))], None
    fails = []
    L = len(x)
    fx, fy = [float(v) for v in x], [float(v) for v in y]
    gx, gy = [float(v) for v in rx], [float(v) for v in ry]
    if not same:
        fails.append(fail("caller-arrays-modified", None, key))
    if len(gx) != r * L or len(gy) != r * L:
        return fails + [fail("length", {"observed": [len(gx), len(gy)], "expected": r * L}, key)], None
    if gy != fy * r:
        fails.append(fail("values-not-tiled", {"observed": gy}, key))
    if gx[:L] != fx:
        fails.append(fail("first-copy-differs", {"observed": gx[:L], "expected": fx}, key))
    if any(b <= a for a, b in zip(gx[:-1], gx[1:])):
        fails.append(fail("not-increasing", {"observed": gx}, key))
    import math
    steps0 = [b - a for a, b in zip(fx[:-1], fx[1:])]
    # rounding of the abscissae (a few ulp of their level, accumulated over r copies) + 1e-9 of a step
    tol = 0.0 if exact else 8 * r * math.ulp(max(abs(gx[-1]), abs(gx[0]))) + 1e-9 * max(steps0)
    d0 = [b - a for a, b in zip(fx[:-1], fx[1:])]
    for c in range(r):
        seg = gx[c * L:(c + 1) * L]
        d = [b - a for a, b in zip(seg[:-1], seg[1:])]
        if any(abs(p - q) > tol for p, q in zip(d, d0)):
            fails.append(fail("spacing-inside-copy", {"copy": c, "observed": d, "expected": d0}, key))
            break
        if c > 0 and abs((gx[c * L] - gx[c * L - 1]) - d0[-1]) > tol:
            fails.append(fail("junction-step", {"copy": c, "observed": gx[c * L] - gx[c * L - 1], "expected": d0[-1]}, key))
            break
    if ref is not None:
        if [float(v) for v in ref[0]] != gx or [float(v) for v in ref[1]] != gy:
            fails.append(fail("reference-not-repeated", {"reference_x": ref[0]}, key))
    return fails, (path, L, r, hash(tuple(gx)) & 0xffffff)


@kind("repeat-compose")
def check_compose(case):
    x, y, a, b, path, exact = (case[k] for k in ("x", "y", "a", "b", "path", "exact"))
    key = {"path": path}
    if path == "process":
        from traffic_weaver.process import repeat
        x1, y1 = repeat(np.array(x, dtype=float), np.array(y, dtype=float), a)
        x2, y2 = repeat(x1, y1, b)
        x3, y3 = repeat(np.array(x, dtype=float), np.array(y, dtype=float), a * b)
    else:
        from traffic_weaver import Weaver
        x2, y2 = Weaver(np.array(x, dtype=float), np.array(y, dtype=float)).repeat(a).repeat(b).get()
        x3, y3 = Weaver(np.array(x, dtype=float), np.array(y, dtype=float)).repeat(a * b).get()
    g2, g3 = [float(v) for v in x2], [float(v) for v in x3]
    import math
    tol = 0.0 if exact else 8 * a * b * math.ulp(max(abs(g3[-1]), abs(g3[0]))) + 1e-9 * (g3[1] - g3[0])
    fails = []
    if len(g2) != len(g3) or any(abs(p - q) > tol for p, q in zip(g2, g3)) or [float(v) for v in y2] != [float(v) for v in y3]:
        fails.append(fail("composition", {"a": a, "b": b, "repeat_a_then_b": g2, "repeat_ab": g3}, key))
    return fails, ("compose", len(x), a, b)


def harnesses(tier, seed):
    quick = tier == "quick"
    grids = [g for k in range(2, (5 if quick else 6) + 1) for g in A.grids(7, k)]
    images = [("id", lambda v: v, True), ("x/4+1", lambda v: v / 4.0 + 1.0, True), ("0.1x+0.3", lambda v: 0.1 * v + 0.3, False),
              ("1e-9x", lambda v: 1e-9 * v, False), ("1e6+x/1024", lambda v: 1e6 + v / 1024.0, True),
              ("1e6+1e-3x(1+1e-6)", lambda v: 1e6 + 1e-3 * v * (1 + 1e-6 * v), False)]
    pairs = [(a, b) for a in range(1, 13) for b in range(1, 13) if a * b <= 12]

    def body(ctx):
        g = ctx.choose(grids, "grid")
        iname, img, exact = ctx.choose(images, "image")
        path = ctx.choose(["process", "weaver"], "path")
        dtype, as_list = ctx.choose([("float64", False), ("int64", False), ("float64", True)], "input")
        if dtype == "int64" and iname != "id":
            return
        if as_list and path == "weaver":
            return
        x = [img(v) for v in g]
        y = [((3 * i) % 5) - 1 for i in range(len(x))]
        for r in range(1, 13):
            judge(ctx, check_repeat, {"x": x, "y": y, "r": r, "path": path, "dtype": dtype, "as_list": as_list, "exact": exact},
                  bulk=True, nontrivial=lambda s: s[2] > 1)
        if dtype == "float64" and not as_list:
            for (a, b) in pairs:
                judge(ctx, check_compose, {"x": x, "y": y, "a": a, "b": b, "path": path, "exact": exact}, calls=3, bulk=True,
                      nontrivial=lambda s: s[2] > 1 and s[3] > 1)
        if len(g) == 3 and iname == "id" and path == "process" and dtype == "float64" and not as_list:
            ctx.sample({"x": x, "y": y, "r": "1..12", "pairs": "ab<=12"})

    return [{"name": "repeat", "body": body}]
