"""C12 - repeat is a periodic extension with the original spacing (E1)."""
import itertools
from fractions import Fraction as F

import numpy as np

from mc import alphabets as A
from mc.harness import kind, fail, judge, replay  # noqa: F401

PROPERTY = "C12"
RULE = ("series on G(7,k), k=2..5/6, 3 abscissa images, int/float dtype, list/array input x r=1..12 x all factor pairs "
        "ab<=12 x {process.repeat, Weaver.repeat}. Signature = (path, len, r, digest of x); non-trivial = r > 1")
ASSUMPTIONS = ["spacing clauses are exact on dyadic grids and 1e-9-relative on the non-dyadic image"]
ANCHORS = {"process.py": [(112, 120)], "weaver.py": [(580, 582)]}
FORMS_HARNESSES = "all"
EXPLANATION = "definition of the periodic extension evaluated on every element of a bounded lattice"


def bounds(tier, seed):
    return {"k": "2..5" if tier == "quick" else "2..6", "r": "1..12", "factor_pairs": "ab<=12"}


def _rep(path, x, y, r, dtype, as_list):
    if path == "process":
        from traffic_weaver.process import repeat
        xi = list(x) if as_list else np.array(x, dtype=dtype)
        yi = list(y) if as_list else np.array(y, dtype=dtype)
        keep = (np.array(xi).copy(), np.array(yi).copy())
        rx, ry = repeat(xi, yi, r)
        same = A.same_bytes(np.array(xi), keep[0]) and A.same_bytes(np.array(yi), keep[1])
        return rx, ry, None, same
    from traffic_weaver import Weaver
    xi, yi = np.array(x, dtype=dtype), np.array(y, dtype=dtype)
    keep = (xi.copy(), yi.copy())
    wv = Weaver(xi, yi).repeat(r)
    same = A.same_bytes(xi, keep[0]) and A.same_bytes(yi, keep[1])
    return wv.get()[0], wv.get()[1], wv.get_reference(), same


@kind("repeat")
def check_repeat(case):
    x, y, r, path, dtype, as_list, exact = (case[k] for k in ("x", "y", "r", "path", "dtype", "as_list", "exact"))
    key = {"path": path}
    try:
        rx, ry, ref, same = _rep(path, x, y, r, dtype, as_list)
    except Exception as e:  # noqa
        return [fail("raised", {"exception": repr(e)}, dict(key, exc=type(e).__name__))], None
    fails = []
    L = len(x)
    fx, fy = [float(v) for v in x], [float(v) for v in y]
    gx, gy = [float(v) for v in rx], [float(v) for v in ry]
    if not same:
        fails.append(fail("caller-arrays-modified", None, key))
    if len(gx) != r * L or len(gy) != r * L:
        return fails + [fail("length", {"observed": [len(gx), len(gy)], "expected": r * L}, key)], None
    if gy != fy * r:
        fails.append(fail("values-not-tiled", {"observed": gy}, key))
    if gx[:L] != fx:
        fails.append(fail("first-copy-differs", {"observed": gx[:L], "expected": fx}, key))
    if any(b <= a for a, b in zip(gx[:-1], gx[1:])):
        fails.append(fail("not-increasing", {"observed": gx}, key))
    import math
    steps0 = [b - a for a, b in zip(fx[:-1], fx[1:])]
    # rounding of the abscissae (a few ulp of their level, accumulated over r copies) + 1e-9 of a step
    tol = 0.0 if exact else 8 * r * math.ulp(max(abs(gx[-1]), abs(gx[0]))) + 1e-9 * max(steps0)
    d0 = [b - a for a, b in zip(fx[:-1], fx[1:])]
    for c in range(r):
        seg = gx[c * L:(c + 1) * L]
        d = [b - a for a, b in zip(seg[:-1], seg[1:])]
        if any(abs(p - q) > tol for p, q in zip(d, d0)):
            fails.append(fail("spacing-inside-copy", {"copy": c, "observed": d, "expected": d0}, key))
            break
        if c > 0 and abs((gx[c * L] - gx[c * L - 1]) - d0[-1]) > tol:
            fails.append(fail("junction-step", {"copy": c, "observed": gx[c * L] - gx[c * L - 1], "expected": d0[-1]}, key))
            break
    if ref is not None:
        if [float(v) for v in ref[0]] != gx or [float(v) for v in ref[1]] != gy:
            fails.append(fail("reference-not-repeated", {"reference_x": ref[0]}, key))
    return fails, (path, L, r, hash(tuple(gx)) & 0xffffff)


@kind("repeat-compose")
def check_compose(case):
    x, y, a, b, path, exact = (case[k] for k in ("x", "y", "a", "b", "path", "exact"))
    key = {"path": path}
    if path == "process":
        from traffic_weaver.process import repeat
        x1, y1 = repeat(np.array(x, dtype=float), np.array(y, dtype=float), a)
        x2, y2 = repeat(x1, y1, b)
        x3, y3 = repeat(np.array(x, dtype=float), np.array(y, dtype=float), a * b)
    else:
        from traffic_weaver import Weaver
        x2, y2 = Weaver(np.array(x, dtype=float), np.array(y, dtype=float)).repeat(a).repeat(b).get()
        x3, y3 = Weaver(np.array(x, dtype=float), np.array(y, dtype=float)).repeat(a * b).get()
    g2, g3 = [float(v) for v in x2], [float(v) for v in x3]
    import math
    tol = 0.0 if exact else 8 * a * b * math.ulp(max(abs(g3[-1]), abs(g3[0]))) + 1e-9 * (g3[1] - g3[0])
    fails = []
    if len(g2) != len(g3) or any(abs(p - q) > tol for p, q in zip(g2, g3)) or [float(v) for v in y2] != [float(v) for v in y3]:
        fails.append(fail("composition", {"a": a, "b": b, "repeat_a_then_b": g2, "repeat_ab": g3}, key))
    return fails, ("compose", len(x), a, b)


@kind("repeat-narrow-int")
def check_narrow_int(case):
    """integer abscissae of a narrow dtype near its maximum: repeating must not wrap around"""
    from traffic_weaver import Weaver
    from traffic_weaver.process import repeat
    dt, x, r = case["dtype"], case["x"], case["r"]
    y = [float(i % 3) for i in range(len(x))]
    fails = []
    for path in ("process", "weaver", "weaver-append"):
        xa = np.array(x, dtype=dt)
        try:
            if path == "process":
                gx, gy = repeat(xa, np.array(y), r)
            else:
                wv = Weaver(xa, np.array(y))
                if path == "weaver-append":
                    wv.append_one_sample()
                wv.repeat(r)
                gx, gy = wv.get()
        except Exception as e:  # noqa
            fails.append(fail("raised", {"exception": repr(e)}, {"path": path, "exc": type(e).__name__}))
            continue
        base = [int(v) for v in x] + ([2 * int(x[-1]) - int(x[-2])] if path == "weaver-append" else [])
        period = (base[-1] - base[0]) + (base[-1] - base[-2])
        exp = [v + c * period for c in range(r) for v in base]
        if [int(round(float(v))) for v in gx] != exp or any(float(b) <= float(a) for a, b in zip(gx[:-1], gx[1:])):
            fails.append(fail("narrow-integer-abscissae-wrapped", {"dtype": dt, "observed": gx, "expected": exp}, {"path": path, "dtype": dt}))
    return fails, (dt, len(x), r)


@kind("repeat-long")
def check_repeat_long(case):
    m, gk, r, path = case["len"], case["grid"], case["r"], case["path"]
    fails, sig = check_repeat({"x": A.long_grid(m, gk), "y": A.long_values(m, "saw"), "r": r, "path": path, "dtype": "float64",
                               "as_list": False, "exact": True})
    for f in fails:
        d = f.get("detail")
        if isinstance(d, dict):
            for k in list(d):
                if isinstance(d[k], (list, tuple, np.ndarray)) and len(d[k]) > 12:
                    d[k] = {"len": len(d[k]), "head": [float(v) for v in list(d[k])[:4]], "tail": [float(v) for v in list(d[k])[-4:]]}
        f["key"] = dict(f["key"], long=True)
    return fails, (None if sig is None else (path, m, r, sig[3]))


REPEAT_HIST_OPS = [("trend", "half-t", False), ("shift_x", 1.0), ("scale_y", 2.0), ("repeat", 2), ("repeat", 3), ("append", False),
                   ("truncate_by_index", 1, None), ("smooth", 0.5), ("restore_original",), ("noise", "scalar")]


@kind("repeat-in-state")
def check_repeat_in_state(case):
    """Weaver.repeat in ANY state tiles the CURRENT series"""
    import copy
    from checks import weaverops as WO
    r = WO.Runner(WO.INITS[case["init"]])
    for op in case["ops"]:
        op = tuple(op)
        if r.concretize(op) is None:
            return [], ("skipped",)
        r.apply(op)
    gx, gy = r.wv.get()
    fx, fy = [float(v) for v in gx], [float(v) for v in gy]
    if len(fx) * case["r"] > 200 or len(fx) < 2:
        return [], ("skipped",)
    w = copy.deepcopy(r.wv).repeat(case["r"])
    ox, oy = [float(v) for v in w.get()[0]], [float(v) for v in w.get()[1]]
    period = (fx[-1] - fx[0]) + (fx[-1] - fx[-2])
    ex = [v + c * period for c in range(case["r"]) for v in fx]
    fails = []
    import math
    tol = 8 * case["r"] * math.ulp(max(abs(ex[-1]), abs(ex[0]), 1.0))
    if oy != fy * case["r"] or len(ox) != len(ex) or any(abs(a - b) > tol for a, b in zip(ox, ex)) or ox[:len(fx)] != fx:
        fails.append(fail("repeat-of-current-series", {"observed_y": oy, "expected_y": fy * case["r"], "observed_x": ox, "expected_x": ex},
                          {"path": "weaver-history"}))
    return fails, (case["init"], tuple(tuple(o) for o in case["ops"]), case["r"])


def harnesses(tier, seed):
    quick = tier == "quick"
    grids = [g for k in range(2, (5 if quick else 6) + 1) for g in A.grids(7, k)]
    images = [("id", lambda v: v, True), ("x/4+1", lambda v: v / 4.0 + 1.0, True), ("0.1x+0.3", lambda v: 0.1 * v + 0.3, False),
              ("1e-9x", lambda v: 1e-9 * v, False), ("1e6+x/1024", lambda v: 1e6 + v / 1024.0, True),
              ("1e6+1e-3x(1+1e-6)", lambda v: 1e6 + 1e-3 * v * (1 + 1e-6 * v), False)]
    pairs = [(a, b) for a in range(1, 13) for b in range(1, 13) if a * b <= 12]

    def body(ctx):
        g = ctx.choose(grids, "grid")
        iname, img, exact = ctx.choose(images, "image")
        path = ctx.choose(["process", "weaver"], "path")
        dtype, as_list = ctx.choose([("float64", False), ("int64", False), ("float64", True)], "input")
        if dtype == "int64" and iname != "id":
            return
        if as_list and path == "weaver":
            return
        x = [img(v) for v in g]
        y = [((3 * i) % 5) - 1 for i in range(len(x))]
        for r in range(1, 13):
            judge(ctx, check_repeat, {"x": x, "y": y, "r": r, "path": path, "dtype": dtype, "as_list": as_list, "exact": exact},
                  bulk=True, nontrivial=lambda s: s[2] > 1)
        if dtype == "float64" and not as_list:
            for (a, b) in pairs:
                judge(ctx, check_compose, {"x": x, "y": y, "a": a, "b": b, "path": path, "exact": exact}, calls=3, bulk=True,
                      nontrivial=lambda s: s[2] > 1 and s[3] > 1)
        if len(g) == 3 and iname == "id" and path == "process" and dtype == "float64" and not as_list:
            ctx.sample({"x": x, "y": y, "r": "1..12", "pairs": "ab<=12"})

    def narrow_body(ctx):
        dt, x = ctx.choose([("int32", [2000000000 + 3600 * i for i in (0, 1, 3, 4)]), ("int32", [2 ** 31 - 20, 2 ** 31 - 12, 2 ** 31 - 9]),
                            ("uint8", list(range(0, 100, 7))), ("int16", [32000, 32100, 32300, 32400]), ("int8", [100, 105, 107]),
                            ("uint16", [65000, 65100, 65300])], "series")
        for r in range(1, 13):
            judge(ctx, check_narrow_int, {"dtype": dt, "x": x, "r": r}, calls=3, bulk=True, nontrivial=lambda sg: sg[2] > 1)

    from checks import weaverops as WO

    def state_body(ctx):
        ii = ctx.choose([0, 1, 2, 3], "init")
        ops = [ctx.choose(REPEAT_HIST_OPS, "op%d" % d) for d in range(2 if quick else 3)]
        for r in (2, 3):
            judge(ctx, check_repeat_in_state, {"init": ii, "ops": [list(o) for o in ops], "r": r}, calls=2,
                  nontrivial=lambda sg: sg[0] != "skipped")

    long_sizes = A.sizes(130 if quick else 300, 2100 if quick else 140000, minimum=2)
    long_r = [1, 2, 3, 5, 6, 7, 10, 13, 16, 17] if quick else list(range(1, 35))

    def long_body(ctx):
        m = ctx.choose(long_sizes, "len")
        gk = ctx.choose(["uniform", "gaps", "offset"], "grid")
        path = ctx.choose(["process", "weaver"], "path")
        for r in long_r:
            if m * r > (40000 if quick else 600000):
                continue
            judge(ctx, check_repeat_long, {"len": m, "grid": gk, "r": r, "path": path}, bulk=True, nontrivial=lambda sg: sg[2] > 1)

    return [{"name": "repeat", "body": body}, {"name": "narrow-integer-abscissae", "body": narrow_body},
            {"name": "repeat-long-series", "body": long_body,
             "bound_text": "every length 2..%d, 2^k+1 and around every integer constant of the code up to %d; r in %s" % (130 if quick else 300, long_sizes[-1], long_r)},
            {"name": "repeat-in-every-state", "body": state_body}]
