"""C01 - integral matching reproduces every reference interval integral (E1)."""
import itertools
from fractions import Fraction as F

import numpy as np

from mc import alphabets as A
from mc.harness import judge, kind, fail
from mc.harness import replay as _replay
from mc.refmodel import match as RM
from checks import matchcommon as M

PROPERTY = "C01"
RULE = ("grids G(L,k) of strictly increasing integers (and affine float images) x every increasing reference tuple on "
        "the half-integer lattice from below to beyond the range x 5 ways of designating fixed points x 2x2 integration "
        "rules x stretch exponents x spanning value vectors, filtered by the stated precondition (distinct fixed points, "
        ">= 1 interior sample per interval) computed by the reference model. Signature = (len(x), fixed indices, "
        "reference indices, rules, moved?); non-trivial = at least one sample was displaced")
ASSUMPTIONS = ["comparison tolerance 1e-9 relative to max(1,|y|,|y_ref|*span)*span (observed error ~1e-15)",
               "post-smoothing (s) is outside the claim and left at None",
               "selection stage is enumerated against a reduced value alphabet and the value/rule/exponent stage against "
               "a reduced selection alphabet (the function factorises: selection depends on abscissae only)",
               "continuous inputs are covered on lattices only (DESIGN.md section 9)"]
ANCHORS = {"match.py": [(92, 129), (244, 264), (334, 338)], "sorted_array_utils.py": [(236, 315)]}
FORMS_HARNESSES = "all"
FORMS_SKIP_QUICK = ("long-and-twin-intervals",)   # long inputs under every form: thorough tier only (cost)
FORMS_WIDTH = {"long-and-twin-intervals": 2}
EXPLANATION = "exhaustive enumeration of bounded input/configuration lattices against an exact reference model"
PREFIX = "C01"

ALPHAS = [1, 2, 3, 0.5]
RULEPAIRS = [(t, r) for t in M.RULES for r in M.RULES]
IMAGES = [("id", lambda v: float(v)), ("x-3", lambda v: float(v) - 3.0), ("x/2", lambda v: v / 2.0), ("x/8+1", lambda v: v / 8.0 + 1.0),
          ("0.1x+0.3", lambda v: 0.1 * v + 0.3), ("1e3x-7", lambda v: 1e3 * v - 7.0), ("x/2^30", lambda v: v / float(2 ** 30))]


def bounds(tier, seed):
    q = tier == "quick"
    return {"grid": "G(7,5..6)" if q else "G(9,5..8)", "ref_tuple_len": "2..3" if q else "2..4",
            "modes": 5, "rule_pairs": 4, "alphas": ALPHAS, "images": "id + 1 selected by seed" if q else "all 5"}


def replay(case):
    return M.only(PREFIX, _replay(case))


@kind("match-scaleup")
def check_scaleup(case):
    """structured large instances (10^2, 10^3 samples): finite, not exhaustive in between."""
    n, m, tr, rr, al = case["n"], case["m"], case["tr"], case["rr"], case["alpha"]
    x = [0.01 * i * (1 + 0.3 * ((i * 7) % 5 == 0)) for i in range(n)]
    x = sorted(set(np.cumsum([0.0] + [0.5 + ((i * 7) % 5) * 0.25 for i in range(n - 1)]).tolist()))
    y = [((i * i) % 17) - 5.0 + 0.01 * i for i in range(n)]
    step = (n - 1) // m
    xr = [x[i * step] for i in range(m + 1)]
    yr = [float((3 * i) % 7 - 2) for i in range(m + 1)]
    c = {"x": x, "y": y, "xr": xr, "yr": yr, "mode": "search", "strategy": case["strategy"], "fixed": None, "tr": tr,
         "rr": rr, "alpha": al, "kind": "match"}
    return M.check_match(c)


def harnesses(tier, seed):
    quick = tier == "quick"
    if quick:
        L = 7
        grids = A.grids(L, 5) + A.grids(L, 6)
        images = [IMAGES[1], IMAGES[[6, 0, 2, 3, 4, 5][seed % 6]]]
        rmax = 3
        vgrids = A.grids(6, 5) + A.grids(6, 6)
    else:
        L = 9
        grids = [g for k in (5, 6, 7, 8) for g in A.grids(L, k)]
        images = IMAGES
        rmax = 4
        vgrids = [g for k in (5, 6, 7) for g in A.grids(8, k)]

    def scale_body(ctx):
        n = ctx.choose([101, 1001], "n")
        m = ctx.choose([4, 10, 25], "m")
        tr, rr = ctx.choose(RULEPAIRS, "rules")
        al = ctx.choose(ALPHAS, "alpha")
        strat = ctx.choose(["closest", "lower", "higher"], "strategy")
        c = {"n": n, "m": m, "tr": tr, "rr": rr, "alpha": al, "strategy": strat, "kind": "match-scaleup"}
        fails, sig = check_scaleup(c)
        ctx.call(2)
        for f in M.only(PREFIX, fails):
            ctx.fail(f["clause"], c, f.get("detail"), f.get("key"))
        ctx.outcome(("scale", n, m, tr, rr, al, strat))

    return [{"name": "weaver-integral_match-in-every-state", "body": M.make_weaver_body(PREFIX, 3 if quick else 4),
             "bound_text": "all programs over 12 Weaver operations to depth %d, then integral_match" % (3 if quick else 4)},
            {"name": "selection", "body": M.make_selection_body(grids, L, rmax, images, ALPHAS, PREFIX),
             "bound_text": "grids on {0..%d}, reference tuples r<=%d, 5 modes" % (L, rmax)},
            {"name": "values", "body": M.make_value_body(vgrids, ALPHAS, PREFIX),
             "bound_text": "all rule pairs x exponents x spanning values x fixed subsets"},
            {"name": "scale-up", "body": scale_body, "bound_text": "structured instances of 101 and 1001 samples"},
            _long_harness(PREFIX, quick)]


def _long_harness(prefix, quick):
    body, counts = M.make_long_body(prefix, quick)
    return {"name": "long-and-twin-intervals", "body": body,
            "bound_text": "samples per interval: every count 2..%d, 2^k+1, around every integer constant of the code (up to %d); "
                          "twin intervals of equal width and count with different layouts" % (40 if quick else 72, counts[-1])}
