"""C11 - truncation and slicing select exactly the requested range (E1 + E2)."""
import itertools
from fractions import Fraction as F

import numpy as np

from mc import alphabets as A
from mc.harness import kind, fail, judge, replay  # noqa: F401

PROPERTY = "C11"
RULE = ("series on G(7,k), k=2..5/6 (+2 dyadic/float images) x every pair of absolute bounds left<right on the half-integer "
        "lattice below/inside/on/above the range x ratio bounds {-1/2,0,1/4,1/2,1,3/2} in all flag combinations x "
        "{process.truncate, Weaver unreshaped, Weaver recreated n=2}; slice_by_value for every (start, stop) in samples "
        "U {None}; index slicing/truncation for every (start, stop, step). Signature = (entry point, len, kept range); "
        "non-trivial = something was cut off")
ASSUMPTIONS = ["ratio bounds are enumerated on dyadic grids only (bound = r*span + x0 is then exact in floating point)",
               "only valid requests (left < right, indices in range, values present) - rejections belong to C20"]
ANCHORS = {"process.py": [(354, 365)], "weaver.py": [(309, 315), (348, 360), (978, 988)]}
FORMS_HARNESSES = "all"
FORMS_SKIP_QUICK = ("truncate-long-series",)   # long inputs under every form: thorough tier only (cost)
FORMS_WIDTH = {"truncate-long-series": 2}
EXPLANATION = "list-comprehension definitions evaluated on every element of a bounded input lattice"


def bounds(tier, seed):
    return {"k": "2..5" if tier == "quick" else "2..6", "bound_lattice": "half-integers -1..8", "steps": [1, 2, 3, -1]}


def ref_truncate(x, left, right):
    """indices (lo, hi) inclusive: last sample <= left (or first) .. first sample >= right (or last)"""
    le = [i for i, v in enumerate(x) if v <= left]
    ge = [i for i, v in enumerate(x) if v >= right]
    lo = le[-1] if le else 0
    hi = ge[0] if ge else len(x) - 1
    return lo, hi


def _bound(x, b, ratio):
    return F(b) * (F(x[-1]) - F(x[0])) + F(x[0]) if ratio else F(b)


@kind("truncate")
def check_truncate(case):
    from traffic_weaver.process import truncate
    from traffic_weaver import Weaver
    from traffic_weaver.rfa import PiecewiseConstantRFA
    x, y, left, right, lr, rr, path = (case[k] for k in ("x", "y", "left", "right", "lr", "rr", "path"))
    key = {"path": path, "left_ratio": lr, "right_ratio": rr}
    ax, ay = np.array(x, dtype=float), np.array(y, dtype=float)
    kx, ky = ax.copy(), ay.copy()
    fx = [float(v) for v in x]
    fails = []
    try:
        if path == "process":
            gx, gy = truncate(ax, ay, left, right, x_left_as_ratio=lr, x_right_as_ratio=rr)
            series = [("working", fx, [float(v) for v in y], gx, gy)]
        else:
            wv = Weaver(ax, ay)
            if path == "weaver-recreated":
                wv.recreate_from_average(2, rfa_class=PiecewiseConstantRFA)
            wx, wy = [float(v) for v in wv.get()[0]], [float(v) for v in wv.get()[1]]
            rx, ry = [float(v) for v in wv.get_reference()[0]], [float(v) for v in wv.get_reference()[1]]
            wv.truncate_by_value(left, right, x_left_as_ratio=lr, x_right_as_ratio=rr)
            series = [("working", wx, wy, wv.get()[0], wv.get()[1]), ("reference", rx, ry, wv.get_reference()[0], wv.get_reference()[1])]
    except Exception as e:  # noqa
        return [fail("raised", {"exception": repr(e)}, dict(key, exc=type(e).__name__))], None
    sig = []
    for (name, sx, sy, gx, gy) in series:
        lo, hi = ref_truncate(sx, _bound(sx, left, lr), _bound(sx, right, rr))
        ex, ey = sx[lo:hi + 1], sy[lo:hi + 1]
        if [float(v) for v in gx] != ex or [float(v) for v in gy] != ey:
            fails.append(fail("truncate-range", {"series": name, "observed_x": gx, "expected_x": ex, "observed_y": gy,
                                                 "expected_y": ey}, dict(key, series=name)))
        sig.append((lo, len(sx) - 1 - hi))
    if not (A.same_bytes(ax, kx) and A.same_bytes(ay, ky)):
        fails.append(fail("caller-arrays-modified", None, key))
    return fails, (path, len(x), tuple(sig))


@kind("truncate-long")
def check_truncate_long(case):
    m, gk = case["len"], case["grid"]
    fails, sig = check_truncate({"x": A.long_grid(m, gk), "y": A.long_values(m, "saw"), "left": case["left"], "right": case["right"],
                                 "lr": False, "rr": False, "path": case["path"]})
    for f in fails:
        d = f.get("detail") or {}
        if isinstance(d, dict):
            for k in ("observed_y", "expected_y"):
                d.pop(k, None)
            for k in ("observed_x", "expected_x"):
                if k in d and len(d[k]) > 8:
                    d[k] = {"len": len(d[k]), "first": float(d[k][0]), "last": float(d[k][-1])}
        f["key"] = dict(f["key"], long=True)
    return fails, (sig if sig is None else (sig[0], m, sig[2]))


@kind("slice-value")
def check_slice_value(case):
    from traffic_weaver import Weaver
    x, y, start, stop, step = (case[k] for k in ("x", "y", "start", "stop", "step"))
    key = {"entry": "slice_by_value", "start_is_first": start is not None and start == x[0], "start_none": start is None,
           "stop_none": stop is None}
    wv = Weaver(np.array(x, dtype=float), np.array(y, dtype=float))
    kw = {}
    if start is not None:
        kw["start"] = start
    if stop is not None:
        kw["stop"] = stop
    if step != 1:
        kw["step"] = step
    try:
        gx, gy = wv.slice_by_value(**kw)
    except Exception as e:  # noqa
        return [fail("raised", {"exception": repr(e)}, dict(key, exc=type(e).__name__))], None
    sel = [i for i, v in enumerate(x) if (start is None or v >= start) and (stop is None or v <= stop)][::step]
    ex, ey = [float(x[i]) for i in sel], [float(y[i]) for i in sel]
    fails = []
    if [float(v) for v in gx] != ex or [float(v) for v in gy] != ey:
        fails.append(fail("slice-by-value", {"observed": [gx, gy], "expected": [ex, ey]}, key))
    if [float(v) for v in wv.get()[0]] != [float(v) for v in x]:
        fails.append(fail("slice-mutated-object", None, key))
    return fails, ("sv", len(x), len(sel))


@kind("index")
def check_index(case):
    from traffic_weaver import Weaver
    x, y, start, stop, step, op = (case[k] for k in ("x", "y", "start", "stop", "step", "op"))
    key = {"entry": op}
    wv = Weaver(np.array(x, dtype=float), np.array(y, dtype=float))
    fx, fy = [float(v) for v in x], [float(v) for v in y]
    fails = []
    try:
        if op == "slice_by_index":
            gx, gy = wv.slice_by_index(start, stop, step)
            # documented: an omitted stop means len(x) (also for a negative step)
            st_ = len(fx) if stop is None else stop
            ex, ey = fx[start:st_:step], fy[start:st_:step]
        else:
            wv.truncate_by_index(start, stop)
            gx, gy = wv.get()
            ex, ey = fx[start:stop], fy[start:stop]
            rx, ry = wv.get_reference()
            if [float(v) for v in rx] != ex or [float(v) for v in ry] != ey:
                fails.append(fail("truncate-by-index-reference", {"observed": [rx, ry], "expected": [ex, ey]}, key))
    except Exception as e:  # noqa
        return [fail("raised", {"exception": repr(e)}, dict(key, exc=type(e).__name__))], None
    if [float(v) for v in gx] != ex or [float(v) for v in gy] != ey:
        fails.append(fail("python-slice-semantics", {"observed": [gx, gy], "expected": [ex, ey]}, key))
    return fails, (op, len(x), len(ex))


@kind("truncate-sequence")
def check_truncate_sequence(case):
    """process.truncate is a function of the array CONTENT at call time: truncate, change the same arrays in place, truncate again"""
    from traffic_weaver.process import truncate
    x = np.array(case["x"], dtype=float)
    y = np.array(case["y"], dtype=float)
    fails = []
    for step, (shift, left, right) in enumerate(case["steps"]):
        if shift:
            x += shift
            y *= 2.0
        gx, gy = truncate(x, y, left, right)
        fx, fy = [float(v) for v in x], [float(v) for v in y]
        lo, hi = ref_truncate(fx, left, right)
        if [float(v) for v in gx] != fx[lo:hi + 1] or [float(v) for v in gy] != fy[lo:hi + 1]:
            fails.append(fail("truncate-after-in-place-edit", {"step": step, "observed": gx, "expected": fx[lo:hi + 1]}, {"path": "process-sequence"}))
            break
    return fails, (len(case["x"]), tuple(tuple(s_) for s_ in case["steps"]))


SLICE_HIST_OPS = [("shift_x", 2.0), ("scale_x", 2.0), ("restore_original",), ("truncate_by_index", 1, None), ("append", False),
                  ("normalize_x", 0.0, 1.0), ("repeat", 2), ("observe", "slice_by_value")]


@kind("slice-history")
def check_slice_history(case):
    """slice_by_value is a function of the CURRENT series: in every state of a history (including after
    restore_original), with slices requested before and after each step"""
    from checks import weaverops as WO
    r = WO.Runner(WO.INITS[case["init"]])
    fails = []
    key = {"entry": "slice_by_value-history"}

    def probe(step, op):
        gx, gy = r.wv.get()
        xs = [float(v) for v in gx]
        ys = [float(v) for v in gy]
        for (a, b) in ((0, len(xs) - 1), (1, len(xs) - 2), (None, len(xs) // 2), (len(xs) // 2, None)):
            try:
                sx, sy = r.wv.slice_by_value(None if a is None else gx[a], None if b is None else gx[b])
            except Exception as e:  # noqa
                fails.append(fail("raised", {"step": step, "after": op, "exception": repr(e)}, dict(key, exc=type(e).__name__)))
                return
            lo = 0 if a is None else a
            hi = len(xs) - 1 if b is None else b
            if [float(v) for v in sx] != xs[lo:hi + 1] or [float(v) for v in sy] != ys[lo:hi + 1]:
                fails.append(fail("slice-by-value-after-history", {"step": step, "after": op, "bounds": [a, b], "observed": sx,
                                                                   "expected": xs[lo:hi + 1]}, key))
                return
    probe(-1, None)
    for i, op in enumerate(case["ops"]):
        op = tuple(op)
        if r.concretize(op) is None:
            return fails, ("skipped",)
        r.apply(op)
        probe(i, op)
        if fails:
            break
    return fails, (case["init"], tuple(tuple(o) for o in case["ops"]))


def harnesses(tier, seed):
    quick = tier == "quick"
    kmax = 5 if quick else 6
    grids = [g for k in range(2, kmax + 1) for g in A.grids(7, k)]
    lat = [float(v) for v in A.half_lattice(-1, 8)]
    ratios = [-0.5, 0.0, 0.25, 0.5, 1.0, 1.5]
    images = [("id", lambda v: float(v)), ("x/4+1", lambda v: v / 4.0 + 1.0), ("0.1x+0.3", lambda v: 0.1 * v + 0.3),
              ("2^50+x", lambda v: float(2 ** 50) + v), ("x/2^20", lambda v: v / float(2 ** 20))]

    def yv(k):
        return [float((3 * i) % 5 - 1) for i in range(k)]

    def trunc_body(ctx):
        g = ctx.choose(grids, "grid")
        iname, img = ctx.choose(images, "image")
        path = ctx.choose(["process", "weaver", "weaver-recreated"], "path")
        x = [img(v) for v in g]
        y = yv(len(x))
        blat = [img(v) for v in lat]
        for l, r in itertools.combinations(blat, 2):
            judge(ctx, check_truncate, {"x": x, "y": y, "left": l, "right": r, "lr": False, "rr": False, "path": path},
                  bulk=True, nontrivial=lambda s: any(a or b for a, b in s[2]))
        if iname != "0.1x+0.3":
            for l, r in itertools.combinations(ratios, 2):
                judge(ctx, check_truncate, {"x": x, "y": y, "left": l, "right": r, "lr": True, "rr": True, "path": path},
                      bulk=True, nontrivial=lambda s: any(a or b for a, b in s[2]))
            span = x[-1] - x[0]
            for l in blat:
                for r in ratios:
                    if l < r * span + x[0]:
                        judge(ctx, check_truncate, {"x": x, "y": y, "left": l, "right": r, "lr": False, "rr": True,
                                                    "path": path}, bulk=True, nontrivial=lambda s: any(a or b for a, b in s[2]))
                    if r * span + x[0] < l:
                        judge(ctx, check_truncate, {"x": x, "y": y, "left": r, "right": l, "lr": True, "rr": False,
                                                    "path": path}, bulk=True, nontrivial=lambda s: any(a or b for a, b in s[2]))
        if len(g) == 4 and iname == "id" and path == "weaver":
            ctx.sample({"x": x, "bounds": "all pairs of the half lattice + ratio pairs", "path": path})

    def slice_body(ctx):
        g = ctx.choose(grids, "grid")
        iname, img = ctx.choose(images, "image")
        x = [img(v) for v in g]
        y = yv(len(x))
        opts = [None] + x
        for s in opts:
            for e in opts:
                if s is not None and e is not None and e < s:
                    continue
                for step in (1, 2):
                    judge(ctx, check_slice_value, {"x": x, "y": y, "start": s, "stop": e, "step": step}, bulk=True,
                          nontrivial=lambda sg: sg[2] < sg[1])

    def index_body(ctx):
        L = ctx.choose([2, 3, 4, 5, 6, 7], "len")
        op = ctx.choose(["slice_by_index", "truncate_by_index"], "op")
        x = [0.5 * i + (i % 2) * 0.125 for i in range(L)]
        y = yv(L)
        for start in range(0, L + 1):
            for stop in list(range(0, L + 1)) + [None]:
                for step in ((1, 2, 3, -1) if op == "slice_by_index" else (1,)):
                    judge(ctx, check_index, {"x": x, "y": y, "start": start, "stop": stop, "step": step, "op": op},
                          bulk=True, nontrivial=lambda sg: sg[2] < sg[1])

    def slice_hist_body(ctx):
        ii = ctx.choose([0, 1, 2, 4], "init")
        ops = [ctx.choose(SLICE_HIST_OPS, "op%d" % d) for d in range(3 if quick else 4)]
        judge(ctx, check_slice_history, {"init": ii, "ops": [list(o) for o in ops]}, calls=4 * len(ops) + 4,
              nontrivial=lambda sg: sg[0] != "skipped")

    def trunc_seq_body(ctx):
        g = ctx.choose(grids, "grid")
        x = [float(v) for v in g]
        s1 = ctx.choose([0.0, 3.0, -2.5, 100.0], "shift1")
        s2 = ctx.choose([0.0, 3.0, -4.0], "shift2")
        l0, r0 = x[0] + 0.5, x[-1] - 0.5
        if l0 >= r0:
            return
        steps = [[0.0, l0, r0], [s1, l0 + s1, r0 + s1 + 0.25], [s2, l0 + s1 + s2 - 0.25, r0 + s1 + s2]]
        judge(ctx, check_truncate_sequence, {"x": x, "y": yv(len(x)), "steps": steps}, calls=3)

    def trunc_long_body(ctx):
        m = ctx.choose(long_sizes, "len")
        gk = ctx.choose(["uniform", "offset", "gaps"], "grid")
        path = ctx.choose(["process", "weaver"], "path")
        x = A.long_grid(m, gk)
        y = A.long_values(m, "saw")
        if m > 2500 and gk == "offset":
            return
        idx = A.interesting_indices(m, dense_to=20, subpath="", limit=26 if m <= 100 else 14 if m <= 2500 else 8)
        pts = {x[0] - 1.0, x[-1] + 1.0}
        for i in idx:
            pts.add(x[i])
            if i + 1 < m:
                pts.add((x[i] + x[i + 1]) / 2)
        pts = sorted(pts)
        for pi, (l, r) in enumerate(itertools.combinations(pts, 2)):
            if m > 2500 and pi % 6:
                continue        # very long series: every third bound pair (each bound still occurs on both sides)
            judge(ctx, check_truncate_long, {"len": m, "grid": gk, "left": l, "right": r, "path": path}, bulk=True,
                  nontrivial=lambda s_: any(a or b for a, b in s_[2]))

    def trunc_ulp_body(ctx):
        """grids that are NOT exactly representable, bounds on / one ulp below / one ulp above every sample and at the short
        decimal literal a user would type for it (0.3 for 0.30000000000000004)"""
        import math
        g = ctx.choose([gr for gr in grids if len(gr) <= 5], "grid")
        iname, img = ctx.choose([("0.1x+0.3", lambda v: 0.1 * v + 0.3), ("0.1x-0.3", lambda v: 0.1 * v - 0.3), ("x/3-1", lambda v: v / 3.0 - 1.0),
                                 ("linspace(-1,1)", None)], "image")
        path = ctx.choose(["process", "weaver"], "path")
        if img is None:
            full = [float(v) for v in np.linspace(-1, 1, 8)]
            x = [full[int(v)] for v in g]
        else:
            x = [img(v) for v in g]
        y = yv(len(x))
        pts = set()
        for v in x:
            pts.update([v, math.nextafter(v, -math.inf), math.nextafter(v, math.inf), round(v, 1), round(v, 2)])
        pts = sorted(pts)
        for l, r in itertools.combinations(pts, 2):
            judge(ctx, check_truncate, {"x": x, "y": y, "left": l, "right": r, "lr": False, "rr": False, "path": path},
                  bulk=True, nontrivial=lambda s_: any(a or b for a, b in s_[2]))

    long_sizes = A.sizes(24 if quick else 50, 17000 if quick else 70000)
    return [{"name": "truncate-long-series", "body": trunc_long_body,
             "bound_text": "sizes up to %d (dense range, 2^k+1, around every integer constant of the code)" % long_sizes[-1]},
            {"name": "truncate-bounds-one-ulp-around-samples", "body": trunc_ulp_body},
            {"name": "truncate-same-array-edited-in-place", "body": trunc_seq_body},
            {"name": "slice-by-value-in-every-state", "body": slice_hist_body}, {"name": "truncate-by-value", "body": trunc_body}, {"name": "slice-by-value", "body": slice_body},
            {"name": "index-ranges", "body": index_body}]
