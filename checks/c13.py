"""C13 - interpolation honours the data and the requested grid (E1 + E2)."""
import bisect
import itertools
import warnings
from fractions import Fraction as F

import numpy as np

from mc import alphabets as A
from mc.harness import kind, fail, judge, replay  # noqa: F401

PROPERTY = "C13"
RULE = ("series on G(8,k), k=4..5/6 (y in V^k for k<=4, spanning set beyond, affine data) x 4 methods x every sorted "
        "new grid of <=2/3 points of the half-integer lattice from below to beyond the range, plus the original "
        "abscissae; Weaver.interpolate(n) for n=2..12 and explicit grids (list/array) sharing both, one or no end point. "
        "Signature = (method, k, digest of values); non-trivial = some new point is not a sample")
ASSUMPTIONS = ["'linear' is only claimed inside the data range (numpy clamps outside); affine reproduction is judged inside the range",
               "scipy CubicSpline / splrep are trusted; 'to rounding' = 1e-9 relative"]
ANCHORS = {"process.py": [(32, 45), (80, 87)], "weaver.py": [(413, 422)]}
FORMS_HARNESSES = "all"
EXPLANATION = "pointwise definitions evaluated on every element of a bounded lattice"
METHODS = ["linear", "constant", "cubic", "spline"]
POISON = {"linear": {"left": -77.0, "right": 55.0}, "constant": {"left": -77.0}, "cubic": {"bc_type": "natural", "extrapolate": False},
          "spline": {"s": 25.0}}


def bounds(tier, seed):
    q = tier == "quick"
    return {"k": "4..5" if q else "4..6", "new_grid_points": "<=2" if q else "<=3 (spanning values), <=2 (all of V^4)", "weaver_n": "2..12"}


def _xarr(x, x_type):
    """how the caller writes the sample abscissae: float64 array, int64 array / list of ints (integral grids)"""
    if x_type in ("int-array", "int-list") and all(float(v) == int(v) for v in x):
        return np.array([int(v) for v in x], dtype=np.int64) if x_type == "int-array" else [int(v) for v in x]
    return np.array(x, dtype=float)


def _interp(method, x, y, new_x, grid_type="float-array", x_type="float-array", kwargs=None):
    """grid_type: how the caller writes the new grid - float array, integer array, list of ints
    (the latter two only when every point is integral)"""
    from traffic_weaver.process import interpolate
    if grid_type != "float-array" and all(float(v) == int(v) for v in new_x):
        g = np.array([int(v) for v in new_x], dtype=np.int64) if grid_type == "int-array" else [int(v) for v in new_x]
    else:
        g = np.array(new_x, dtype=float)
    with warnings.catch_warnings():
        warnings.simplefilter("ignore")
        return interpolate(_xarr(x, x_type), np.array(y, dtype=float), g, method=method, **(kwargs or {}))


@kind("interp")
def check_interp(case):
    x, y, new_x, method = case["x"], case["y"], case["new_x"], case["method"]
    key = {"method": method}
    try:
        if case.get("poison"):
            # history: the same method was called before with method-specific options (they must not stick)
            try:
                _interp(method, x, y, new_x, kwargs=POISON[method])
            except Exception:
                pass
        got = _interp(method, x, y, new_x, case.get("grid_type", "float-array"), case.get("x_type", "float-array"))
    except Exception as e:  # noqa
        return [fail("raised", {"exception": repr(e)}, dict(key, exc=type(e).__name__))], None
    if got is None or len(got) != len(new_x):
        return [fail("shape", {"observed": got}, key)], None
    g = [float(v) for v in got]
    fx, fy = [float(v) for v in x], [float(v) for v in y]
    sc = max(1.0, max(abs(v) for v in fy))
    fails = []
    affine = case.get("affine")
    for q, v in zip(new_x, g):
        q = float(q)
        if q in fx:
            e = fy[fx.index(q)]
            tol = 0.0 if method in ("linear", "constant") else 1e-9 * sc
            if abs(v - e) > tol:
                fails.append(fail("node-not-reproduced", {"at": q, "observed": v, "expected": e}, key))
                break
        if method == "constant":
            i = bisect.bisect_right(fx, q) - 1
            e = fy[max(i, 0)]
            if v != e:
                fails.append(fail("constant-definition", {"at": q, "observed": v, "expected": e}, key))
                break
        if method == "linear" and fx[0] <= q <= fx[-1]:
            i = min(bisect.bisect_right(fx, q) - 1, len(fx) - 2)
            e = F(fy[i]) + (F(fy[i + 1]) - F(fy[i])) * (F(q) - F(fx[i])) / (F(fx[i + 1]) - F(fx[i]))
            if abs(v - float(e)) > 1e-12 * sc:
                fails.append(fail("linear-definition", {"at": q, "observed": v, "expected": float(e)}, key))
                break
        if affine is not None and method != "constant" and fx[0] <= q <= fx[-1]:
            e = affine[0] * q + affine[1]
            if abs(v - e) > 1e-9 * max(sc, abs(e)):
                fails.append(fail("affine-not-reproduced", {"at": q, "observed": v, "expected": e}, key))
                break
    return fails, (method, len(x), tuple(round(v, 9) for v in g))


def _long_case(case):
    m, gk, P, R, dens, yk = case["len"], case["grid"], case["left"], case["right"], case["density"], case["y"]
    x = A.long_grid(m, gk)
    aff = None
    if yk == "affine":
        aff = (0.5, -2.0)
        y = [aff[0] * v + aff[1] for v in x]
    else:
        y = A.long_values(m, yk)
    new = [x[0] - 0.25 * (P - j) for j in range(P)]
    if dens == 0:
        # a SHORT new grid on a long series: the samples at the interesting positions and the midpoints behind them
        for i in A.interesting_indices(m, dense_to=12, limit=case.get("limit", 16)):
            new.append(x[i])
            if i + 1 < m:
                new.append((x[i] + x[i + 1]) / 2)
        if new[-1] != x[-1]:
            new.append(x[-1])
        new = sorted(set(new))
    else:
        for i in range(m - 1):
            new.append(x[i])
            for d in range(1, dens):
                new.append(x[i] + (x[i + 1] - x[i]) * d / dens)
        new.append(x[-1])
    new += [x[-1] + 0.25 * (j + 1) for j in range(R)]
    return {"x": x, "y": y, "new_x": new, "method": case["method"], "affine": aff}


@kind("interp-long")
def check_interp_long(case):
    fails, sig = check_interp(_long_case(case))
    for f in fails:
        f["key"] = dict(f["key"], long=True)
    return fails, (None if sig is None else (case["method"], case["len"], case["left"], case["right"], hash(sig[2]) & 0xffffff))


@kind("weaver-interp")
def check_weaver_interp(case):
    from traffic_weaver import Weaver
    x, y, method = case["x"], case["y"], case["method"]
    key = {"method": method, "mode": "n" if case.get("n") is not None else "grid"}
    ax, ay = np.array(x, dtype=float), np.array(y, dtype=float)
    wv = Weaver(ax, ay)
    fails = []
    with warnings.catch_warnings():
        warnings.simplefilter("ignore")
        if case.get("n") is not None:
            n = case["n"]
            try:
                wv.interpolate(n=n, method=method)
            except Exception as e:  # noqa
                return [fail("raised", {"exception": repr(e)}, dict(key, exc=type(e).__name__))], None
            gx, gy = wv.get()
            gx = np.asarray(gx, dtype=float)
            if len(gx) != n or len(gy) != n:
                fails.append(fail("not-n-points", {"n": n, "observed": len(gx)}, key))
            elif gx[0] != ax[0] or gx[-1] != ax[-1]:
                fails.append(fail("range-not-preserved", {"observed": [gx[0], gx[-1]], "expected": [ax[0], ax[-1]]}, key))
            else:
                step = (float(ax[-1]) - float(ax[0])) / (n - 1)
                if any(abs(float(gx[i]) - (float(ax[0]) + i * step)) > 1e-12 * max(1.0, abs(float(ax[-1])), abs(float(ax[0]))) for i in range(n)):
                    fails.append(fail("not-equally-spaced", {"observed": gx}, key))
                ref = _interp(method, x, y, gx)
                if [float(v) for v in ref] != [float(v) for v in gy]:
                    fails.append(fail("values-differ-from-function", None, key))
            return fails, ("n", method, n)
        grid = case["grid"]
        arg = list(grid) if case.get("grid_as_list") else np.array(grid, dtype=float)
        shares = float(grid[0]) == float(x[0]) and float(grid[-1]) == float(x[-1])
        try:
            wv.interpolate(new_x=arg, method=method)
        except ValueError:
            if shares:
                return [fail("valid-grid-rejected", {"grid": grid}, key)], None
            bx, by = wv.get()
            if [float(v) for v in bx] != [float(v) for v in x] or [float(v) for v in by] != [float(v) for v in y]:
                return [fail("rejected-grid-changed-state", None, key)], None
            return [], ("grid-rejected", method, len(grid))
        except Exception as e:  # noqa
            return [fail("raised", {"exception": repr(e)}, dict(key, exc=type(e).__name__))], None
        if not shares:
            return [fail("grid-with-other-end-points-accepted", {"grid": grid, "x": x}, key)], None
        gx, gy = wv.get()
        if [float(v) for v in gx] != [float(v) for v in grid]:
            fails.append(fail("grid-not-used", {"observed": gx}, key))
        ref = _interp(method, x, y, grid)
        if [float(v) for v in ref] != [float(v) for v in gy]:
            fails.append(fail("values-differ-from-function", None, key))
        return fails, ("grid", method, len(grid))


def harnesses(tier, seed):
    quick = tier == "quick"
    grids = [g for k in ((4, 5) if quick else (4, 5, 6)) for g in A.grids(8, k)]
    lat = [float(v) for v in A.half_lattice(-1, 9)]
    maxpts = 2 if quick else 3
    newgrids = [list(t) for r in range(1, maxpts + 1) for t in itertools.combinations(lat, r)]
    newgrids2 = [list(t) for r in range(1, 3) for t in itertools.combinations(lat, r)]

    def yvecs(k):
        return [list(v) for v in A.spanning_values(k)] + ([[0, 1, 1, 5][:k], [2, 0, 5, 1][:k]] if k <= 4 else [])

    def body(ctx):
        g = ctx.choose(grids, "grid")
        method = ctx.choose(METHODS, "method")
        x = [float(v) for v in g]
        ys = [(y, None) for y in yvecs(len(x))] + [([v + 0.25 for v in yvecs(len(x))[1]], None), ([0.5 * v for v in yvecs(len(x))[-1]], None)]
        ys += [([a * v + b for v in x], (a, b)) for (a, b) in ((2.0, -1.0), (-0.5, 3.0), (0.0, 4.0))]
        yi = ctx.choose(len(ys), "y")
        y, aff = ys[yi]
        for gt in ("float-array", "int-array", "int-list"):
            judge(ctx, check_interp, {"x": x, "y": y, "new_x": x, "method": method, "affine": aff, "grid_type": gt}, bulk=True,
                  nontrivial=False)
        for gi, ng in enumerate(newgrids):
            judge(ctx, check_interp, {"x": x, "y": y, "new_x": ng, "method": method, "affine": aff,
                                      "grid_type": ("float-array", "int-array", "int-list")[gi % 3],
                                      "x_type": ("float-array", "float-array", "int-array", "int-list")[(gi // 3) % 4],
                                      "poison": gi % 5 == 2}, bulk=True, nontrivial=True)
        # the same series moved to negative abscissae (fractional new points below zero)
        xn = [v - 6.0 for v in x]
        affn = None if aff is None else (aff[0], aff[1] + 6.0 * aff[0])
        for gi, ng in enumerate(newgrids[::3]):
            judge(ctx, check_interp, {"x": xn, "y": y, "new_x": [v - 6.0 for v in ng], "method": method, "affine": affn,
                                      "x_type": ("int-array", "float-array", "int-list")[gi % 3]}, bulk=True, nontrivial=True)
        if len(g) == 4 and yi == 1 and method == "constant":
            ctx.sample({"x": x, "y": y, "method": method, "new_grids": "all sorted tuples of <=%d half-lattice points" % maxpts})

    def weaver_body(ctx):
        g = ctx.choose([g for g in grids if len(g) <= 5][::3], "grid")
        method = ctx.choose(METHODS, "method")
        x = [float(v) / 2 + 1 for v in g]
        y = [float((3 * i) % 5 - 1) for i in range(len(x))]
        for n in range(2, 13):
            judge(ctx, check_weaver_interp, {"x": x, "y": y, "method": method, "n": n}, calls=2, bulk=True)
        inner = [x[0] + 0.25, (x[0] + x[-1]) / 2]
        for first in (x[0], x[0] + 0.5, x[0] - 1):
            for last in (x[-1], x[-1] - 0.5, x[-1] + 1):
                for as_list in (False, True):
                    grid = [first] + [v for v in inner if first < v < last] + [last]
                    judge(ctx, check_weaver_interp, {"x": x, "y": y, "method": method, "grid": grid, "grid_as_list": as_list},
                          calls=2, bulk=True)

    def full_values_body(ctx):
        # thorough: the whole value lattice V^4 on every 4-point grid, new grids of <= 2 points
        g = ctx.choose([g for g in grids if len(g) == 4], "grid")
        method = ctx.choose(METHODS, "method")
        x = [float(v) for v in g]
        for y in itertools.product(A.V, repeat=4):
            for gi, ng in enumerate(newgrids2):
                judge(ctx, check_interp, {"x": x, "y": list(y), "new_x": ng, "method": method, "affine": None,
                                          "grid_type": ("float-array", "int-array", "int-list")[gi % 3]}, bulk=True)

    long_sizes = A.sizes(20 if quick else 40, 17000 if quick else 70000, minimum=4)
    dense_cap = 1100 if quick else 9000     # a new grid denser than the series: quadratic reference, smaller cap
    pad_sizes = [0, 1] + [v for v in A.sizes(0, 1100 if quick else 17000) if v >= 15]

    def long_body(ctx):
        """long series and long new grids: P new points left of the data, `density` points per interval (the samples
        among them), R points beyond; sizes cross powers of two and every integer constant of the code"""
        method = ctx.choose(METHODS, "method")
        shape = ctx.choose(["series-long", "left-pad", "right-pad", "both-pads", "series-long-sparse-grid"], "shape")
        yk = ctx.choose(["saw", "affine"], "y")
        gk = ctx.choose(["uniform", "gaps"], "grid")
        if shape == "series-long-sparse-grid":
            for m in long_sizes:
                if m < 8 or (method in ("cubic", "spline") and m > 3000):
                    continue
                for (P, R) in ((0, 0), (1, 2)):
                    judge(ctx, check_interp_long, {"len": m, "grid": gk, "left": P, "right": R, "density": 0, "y": yk, "method": method},
                          bulk=True, nontrivial=True)
        elif shape == "series-long":
            for m in long_sizes:
                if (method in ("cubic", "spline") and m > 3000) or m > dense_cap:
                    continue
                judge(ctx, check_interp_long, {"len": m, "grid": gk, "left": 1, "right": 1, "density": 2 if m > 40 else 4, "y": yk, "method": method},
                      bulk=True, nontrivial=True)
        else:
            for pad in pad_sizes:
                P = pad if shape in ("left-pad", "both-pads") else 0
                R = pad if shape in ("right-pad", "both-pads") else 0
                for m in (4, 7, 40):
                    judge(ctx, check_interp_long, {"len": m, "grid": gk, "left": P, "right": R, "density": 3, "y": yk, "method": method},
                          bulk=True, nontrivial=True)

    hs = [{"name": "function", "body": body}, {"name": "weaver", "body": weaver_body},
          {"name": "long-series-and-long-grids", "body": long_body,
           "bound_text": "series lengths %s..%d, pads %s (2^k+1 and around every integer constant of the code)" % (long_sizes[0], long_sizes[-1], pad_sizes)}]
    if not quick:
        hs.append({"name": "function-full-value-lattice", "body": full_values_body})
    return hs
