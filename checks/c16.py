"""C16 - smoothing and the spline function respect the smoothing condition (E1)."""
import itertools
import math
import warnings

import numpy as np

from mc import alphabets as A
from mc.harness import kind, fail, judge, replay  # noqa: F401

PROPERTY = "C16"
RULE = ("series of 5..7 points on uniform and non-uniform grids, y in {0,1,3}^k (k=5, 6) plus noisy-ramp/affine patterns x "
        "s in {0,1e-4,1e-2,0.1,1,10,100,None} x {Weaver.smooth, Weaver.to_function, process.spline_smooth}; runs in which "
        "FITPACK warns are counted and discarded as the quantifier says. Signature = (entry, k, s, rounded output); "
        "non-trivial = the smoothed values differ from the input")
ASSUMPTIONS = ["FITPACK (scipy splrep) is a trusted black box inside its documented 0.1 % tolerance",
               "executions with a FITPACK warning are discarded, not judged (counted in counters.discarded_fitpack_warning)"]
ANCHORS = {"process.py": [(217, 219)], "weaver.py": [(655, 656), (695, 695)]}
FORMS_HARNESSES = "all"
EXPLANATION = "smoothing-condition invariants evaluated on every element of a bounded lattice"
SVALS = [0, 1e-4, 1e-2, 0.1, 1, 10, 100, None]


def bounds(tier, seed):
    return {"k": "5..6" if tier == "quick" else "5..7", "s": [str(s) for s in SVALS]}


@kind("smooth")
def check_smooth(case):
    from traffic_weaver import Weaver
    from traffic_weaver.process import spline_smooth
    x, y, s, entry = case["x"], case["y"], case["s"], case["entry"]
    key = {"entry": entry, "s_none": s is None, "s_zero": s == 0}
    ydt = case.get("y_dtype", "float64")
    fx, fy_in = np.array(x, dtype=float), np.array(y, dtype=ydt)     # the caller's y may be integer-typed
    fy = fy_in.astype(float)
    kx, ky = fx.copy(), fy_in.copy()
    fails = []
    with warnings.catch_warnings(record=True) as wlist:
        warnings.simplefilter("always")
        try:
            if entry == "smooth":
                wv = Weaver(fx, fy_in).smooth(s)
                gx, gy = wv.get()
            elif entry == "to_function":
                wv = Weaver(fx, fy_in)
                f = wv.to_function() if s == 0 and case.get("default") else wv.to_function(s)
                gx, gy = wv.get()[0], f(fx)
                if [float(v) for v in wv.get()[1]] != [float(v) for v in y]:
                    fails.append(fail("to_function-changed-series", None, key))
            else:
                gx, gy = fx, spline_smooth(fx, fy_in, s)(fx)
        except Exception as e:  # noqa
            return [fail("raised", {"exception": repr(e)}, dict(key, exc=type(e).__name__))], None
    if any(issubclass(w.category, (RuntimeWarning, UserWarning)) for w in wlist):
        return [], ("discarded",)
    gy = np.asarray(gy, dtype=float)
    if [float(v) for v in gx] != [float(v) for v in x] or gy.shape != fy.shape:
        fails.append(fail("x-or-length-changed", {"x": gx, "len": gy.shape}, key))
        return fails, None
    if not (A.same_bytes(fx, kx) and A.same_bytes(fy_in, ky)):
        fails.append(fail("caller-arrays-modified", None, key))
    sse = float(np.sum((gy - fy) ** 2))
    sc = max(1.0, float(np.max(np.abs(fy))))
    s_eff = len(y) * float(np.var(fy)) if s is None else s
    if sse > s_eff * (1 + 1e-3) + 1e-12 * sc * sc:
        fails.append(fail("smoothing-condition", {"sum_sq_dev": sse, "s": s_eff}, key))
    if s == 0 and np.any(np.abs(gy - fy) > 1e-9 * sc):
        fails.append(fail("s=0-not-identity", {"observed": gy, "expected": fy}, key))
    if case.get("affine") and np.any(np.abs(gy - fy) > 1e-9 * sc):
        fails.append(fail("affine-not-identity", {"observed": gy, "expected": fy}, key))
    if s is None and entry in ("smooth", "function"):
        with warnings.catch_warnings(record=True) as w2:
            warnings.simplefilter("always")
            alt = Weaver(fx.copy(), fy_in.copy()).smooth(s_eff).get()[1] if entry == "smooth" else spline_smooth(fx, fy_in, s_eff)(fx)
        if not w2 and np.any(np.abs(np.asarray(alt) - gy) > 1e-9 * sc):
            fails.append(fail("default-s-is-not-len*var", {"observed": gy, "with_len*var": alt}, key))
    if entry == "to_function" and s == 0:
        # consistent with get() between samples as well: the interpolating spline is continuous, evaluated finite
        mid = (fx[:-1] + fx[1:]) / 2
        if not np.all(np.isfinite(f(mid))):
            fails.append(fail("function-not-finite", None, key))
    return fails, (entry, len(x), str(s), tuple(np.round(gy, 6)), bool(np.any(np.abs(gy - fy) > 1e-9)))


@kind("smooth-long")
def check_smooth_long(case):
    from mc.harness import shrink
    m = case["len"]
    x = A.long_grid(m, case["grid"])
    y = [0.05 * i + 0.3 * ((i * 7) % 3 - 1) + (1.5 if (i // 9) % 2 else 0.0) for i in range(m)]
    fails, sig = check_smooth({"x": x, "y": y, "s": case["s"], "entry": case["entry"], "affine": False, "default": True, "y_dtype": "float64"})
    if sig is not None and sig[0] != "discarded":
        sig = (sig[0], m, sig[2], hash(sig[3]) & 0xffffff, sig[4])
    return shrink(fails, long=True), sig


@kind("to_function-history")
def check_tofunction_history(case):
    """to_function() (default zero smoothing) passes through every sample get() returns - in every
    state of a history of domain operations, with the function requested before and after each step"""
    from checks import weaverops as WO
    r = WO.Runner(WO.INITS[case["init"]])
    key = {"entry": "to_function-history"}
    fails = []

    def probe(step, op):
        gx, gy = r.wv.get()
        if len(gx) < 4:
            return
        with warnings.catch_warnings(record=True) as wl:
            warnings.simplefilter("always")
            vals = r.wv.to_function()(np.asarray(gx, dtype=float))
            sm = r.wv.to_function(0.0)(np.asarray(gx, dtype=float))
        if any(issubclass(w.category, (RuntimeWarning, UserWarning)) for w in wl):
            return
        gy = np.asarray(gy, dtype=float)
        sc = max(1.0, float(np.max(np.abs(gy))))
        if np.any(np.abs(vals - gy) > 1e-9 * sc) or np.any(np.abs(sm - gy) > 1e-9 * sc):
            fails.append(fail("function-inconsistent-with-get", {"step": step, "after": op, "function_at_x": vals, "get_y": gy}, key))
    probe(-1, None)
    for i, op in enumerate(case["ops"]):
        op = tuple(op)
        if r.concretize(op) is None:
            return fails, ("skipped",)
        r.apply(op)
        probe(i, op)
        if fails:
            break
    return fails, (case["init"], tuple(tuple(o) for o in case["ops"]))


def harnesses(tier, seed):
    quick = tier == "quick"
    xgrids = {5: [(0, 1, 2, 3, 4), (0, 1, 3, 4, 8), (0, 2, 3, 7, 8)], 6: [(0, 1, 2, 3, 4, 5), (0, 1, 3, 4, 8, 9), (0, 2, 3, 7, 8, 10)],
              7: [(0, 1, 2, 3, 4, 5, 6), (0, 1, 3, 4, 8, 9, 11), (0, 2, 3, 7, 8, 10, 15)]}
    ks = [5, 6] if quick else [5, 6, 7]

    def yvecs(k, x):
        lat = list(itertools.product((0, 1, 3), repeat=k))
        if quick and k == 6:
            lat = lat[seed % 3::3]
        out = [(list(v), False) for v in lat]
        out += [([0.5 * i + 0.3 * ((i * 7) % 3 - 1) for i in range(k)], False), ([2.0 * v - 1 for v in x], True),
                ([3.0 - 0.5 * v for v in x], True), ([4.0] * k, True)]
        return out

    def body(ctx):
        k = ctx.choose(ks, "k")
        g = ctx.choose(xgrids[k], "grid")
        scale = ctx.choose([1.0, 0.25], "xscale")
        entry = ctx.choose(["smooth", "to_function", "function"], "entry")
        s = ctx.choose(SVALS, "s")
        x = [scale * v + 1 for v in g]
        nd = 0
        cases = [(y, aff, "float64") for (y, aff) in yvecs(k, x)]
        # integer-typed series of large magnitude (counts): same condition, s scaled with the magnitude squared
        base = [v for (v, aff) in yvecs(k, x)[:: 9] if all(float(t) == int(t) for t in v)]
        cases += [([int(t) * 300 for t in v], False, "int16") for v in base] + [([int(t) * 20000 for t in v], False, "int32") for v in base]
        for y, aff, ydt in cases:
            c = {"x": x, "y": y, "s": s if (ydt == "float64" or s is None) else s * (300.0 if ydt == "int16" else 20000.0) ** 2,
                 "entry": entry, "affine": aff, "default": True, "y_dtype": ydt}
            c["kind"] = "smooth"
            fails, sig = check_smooth(c)
            ctx.call(1)
            ctx.bulk(1)
            for f in fails:
                ctx.fail(f["clause"], c, f.get("detail"), f.get("key"))
            if sig is not None and sig[0] == "discarded":
                ctx.note("discarded_fitpack_warning")
            elif sig is not None:
                ctx.outcome(sig, nontrivial=sig[-1])
        if k == 5 and entry == "smooth" and s == 1 and scale == 1.0 and g == xgrids[5][1]:
            ctx.sample({"x": x, "s": s, "entry": entry, "y": "{0,1,3}^5 + ramps"})

    from checks import weaverops as WO

    def hist_body(ctx):
        ii = ctx.choose([0, 1, 3, 5], "init")
        ops = []
        r = WO.Runner(WO.INITS[ii])
        for d in range(2 if quick else 3):
            en = r.enabled(WO.DOMAIN_OPS)
            op = ctx.choose(en, "op%d" % d)
            r.apply(op)
            ops.append(op)
        judge(ctx, check_tofunction_history, {"init": ii, "ops": [list(o) for o in ops]}, calls=2 * len(ops) + 2)

    lsizes = A.sizes(40 if quick else 72, 1100 if quick else 3300, minimum=5)

    def long_body(ctx):
        m = ctx.choose(lsizes, "len")
        gk = ctx.choose(["uniform", "gaps"], "grid")
        entry = ctx.choose(["smooth", "to_function", "function"], "entry")
        for s_ in (0, 1.0, 0.05 * m, None):
            if s_ == 0 and m > 600:
                continue
            c = {"kind": "smooth-long", "len": m, "grid": gk, "s": s_, "entry": entry}
            fails, sig = check_smooth_long(c)
            ctx.call(1)
            ctx.bulk(1)
            for f in fails:
                ctx.fail(f["clause"], c, f.get("detail"), f.get("key"))
            if sig is not None and sig[0] == "discarded":
                ctx.note("discarded_fitpack_warning")
            elif sig is not None:
                ctx.outcome(sig, nontrivial=sig[-1])

    return [{"name": "smoothing", "body": body}, {"name": "to_function-in-every-state", "body": hist_body},
            {"name": "long-series", "body": long_body,
             "bound_text": "every length 5..%d, 2^k+1 and around every integer constant of the code up to %d" % (40 if quick else 72, lsizes[-1])}]
