"""C15 - noise is purely additive and obeys the signal-to-noise definition (E1, owned RNG)."""
import itertools
import math

import numpy as np

from mc import alphabets as A
from mc.harness import kind, fail, judge, replay  # noqa: F401

PROPERTY = "C15"
RULE = ("signals in V+-^k (k<=4/5) and structured long signals x snr scalar in dB {-3,0,10,40} / linear {1/2,1,100}, "
        "per-sample lists, explicit std {0.5,2} with snr None x {process.noise_gauss, Weaver.noise}; the generator is "
        "owned by a seam that records (loc, scale, size) and returns scale*u for a fixed +-1 pattern; a second pass runs "
        "the real generator under 3 seeds on 2*10^5 samples. Signature = (path, snr form, digest of scale); "
        "non-trivial = signal not constant")
ASSUMPTIONS = ["the statistical sentence is a finite 3-seed confirmation of NumPy's generator (within 3 %), not a proof",
               "all-zero signals are excluded for finite SNR (noise std is then 0 by definition - still checked for scale == 0)"]
ANCHORS = {"process.py": [(283, 294), (296, 297)]}
FORMS_HARNESSES = "all"
EXPLANATION = "definition of the noise scale observed at the seam for every element of a bounded lattice"


def bounds(tier, seed):
    return {"k": "1..5" if tier == "quick" else "1..6", "snr_db": [-3, 0, 10, 40], "snr_linear": [0.5, 1, 100], "std": [0.5, 2]}


class Seam:
    """replaces numpy.random.normal by a recorder returning scale * u (u = fixed +-1 pattern)."""

    def __init__(self):
        self.calls = []

    def __enter__(self):
        self.orig = np.random.normal

        def fake(loc=0.0, scale=1.0, size=None):
            self.calls.append((loc, scale, size))
            n = int(np.prod(size)) if size is not None else 1
            u = np.array([1.0 if i % 2 == 0 else -1.0 for i in range(n)]).reshape(size if size is not None else ())
            return loc + np.asarray(scale) * u
        np.random.normal = fake
        return self

    def __exit__(self, *a):
        np.random.normal = self.orig


@kind("noise")
def check_noise(case):
    from traffic_weaver.process import noise_gauss
    from traffic_weaver import Weaver
    a, snr, db, std, path = case["a"], case["snr"], case["db"], case["std"], case["path"]
    key = {"path": path, "db": db, "per_sample": isinstance(snr, list), "std_only": snr is None}
    fa = [float(v) for v in a]
    adt = case.get("a_dtype")
    arr = np.array(fa) if not adt else np.array([int(v) for v in a], dtype=adt)   # integer-typed signals (bit/s counters)
    if adt:
        key["a_dtype"] = adt
    keep = arr.copy()
    kw = {"snr_in_db": db}
    if std is not None:
        kw["std"] = std
    sdt = case.get("snr_dtype")
    if snr is None:
        snr_arg = None
    elif isinstance(snr, list):
        snr_arg = list(snr) if case.get("snr_list") else np.array(snr, dtype=sdt or float)
    else:
        snr_arg = snr if not sdt else np.dtype(sdt).type(snr)
    snr_keep = snr_arg.copy() if isinstance(snr_arg, np.ndarray) else None
    fails = []
    with Seam() as s:
        try:
            if path == "process":
                out = noise_gauss(arr, snr=snr_arg, **kw)
                ox = None
            else:
                xs = np.arange(len(fa), dtype=float) * 0.5 + 1
                wv = Weaver(xs.copy(), arr).noise(snr_arg, **kw)
                ox, out = wv.get()
        except Exception as e:  # noqa
            return [fail("raised", {"exception": repr(e)}, dict(key, exc=type(e).__name__))], None
    if not A.same_bytes(arr, keep):
        fails.append(fail("caller-array-modified", None, key))
    if snr_keep is not None and not A.same_bytes(snr_arg, snr_keep):
        fails.append(fail("caller-snr-array-modified", {"before": snr_keep, "after": snr_arg}, key))
    if len(s.calls) != 1:
        return fails + [fail("generator-calls", {"calls": len(s.calls)}, key)], None
    loc, scale, size = s.calls[0]
    if loc != 0:
        fails.append(fail("noise-not-zero-mean", {"loc": loc}, key))
    if tuple(np.atleast_1d(size)) != (len(fa),):
        fails.append(fail("noise-size", {"size": size}, key))
    power = (math.fsum(v * v for v in fa) / len(fa)) if not adt else float(sum(int(v) * int(v) for v in a)) / len(fa)
    if snr is None:
        exp = [float(std if std is not None else 1.0)] * len(fa)
    else:
        snrs = snr if isinstance(snr, list) else [snr] * len(fa)
        exp = [math.sqrt(power / (10 ** (q / 10.0) if db else q)) for q in snrs]
    sc = np.broadcast_to(np.asarray(scale, dtype=float), (len(fa),))
    rtol = 1e-6 if sdt == "float32" else 1e-9      # a float32 request is honoured to float32 precision
    if any(not abs(float(p) - q) <= rtol * max(1.0, q) for p, q in zip(sc, exp)):
        fails.append(fail("noise-scale-definition", {"observed": sc, "expected": exp}, key))
    out = np.asarray(out, dtype=float)
    if out.shape != (len(fa),):
        fails.append(fail("length-changed", {"shape": out.shape}, key))
    else:
        u = np.array([1.0 if i % 2 == 0 else -1.0 for i in range(len(fa))])
        expo = np.array(fa) + np.array(exp) * u
        if not np.all(np.abs(out - expo) <= rtol * np.maximum(1.0, np.abs(expo))):
            fails.append(fail("not-additive", {"observed": out, "expected": expo}, key))
    if path == "process" and not fails:
        with Seam() as s2:
            out2 = noise_gauss(arr, snr=snr_arg, **kw)
        if np.asarray(out2).tobytes() != out.tobytes():
            fails.append(fail("second-call-differs", {"first": out, "second": out2}, key))
    if ox is not None and [float(v) for v in ox] != [float(v) for v in (np.arange(len(fa)) * 0.5 + 1)]:
        fails.append(fail("x-changed", None, key))
    return fails, (path, db, isinstance(snr, list), snr is None, tuple(round(float(v), 9) for v in sc))


@kind("noise-long")
def check_noise_long(case):
    from mc.harness import shrink
    L, pat = case["len"], case["pattern"]
    a = [[math.sin(i / 7.0) * 3 + 1 for i in range(L)], [float((i * i) % 13 - 6) for i in range(L)],
         [(-1.0) ** i * (1 + 4.0 * i / L) for i in range(L)]][pat]
    fails, sig = check_noise({"a": a, "snr": case["snr"], "db": case["db"], "std": case["std"], "path": case["path"]})
    return shrink(fails, long=True), (None if sig is None else (case["path"], L, pat, hash(sig) & 0xffffff))


@kind("noise-real-generator")
def check_real(case):
    from traffic_weaver.process import noise_gauss
    seed, snr, db, sig = case["seed"], case["snr"], case["db"], case["signal"]
    n = 200000
    t = np.arange(n)
    a = {"sine": 3 * np.sin(t / 50.0) + 1, "ramp": t / n * 4 - 1, "square": np.where((t // 100) % 2 == 0, 2.0, -1.0)}[sig]
    key = {"signal": sig, "db": db}
    np.random.seed(seed)
    o1 = noise_gauss(a, snr=snr, snr_in_db=db)
    np.random.seed(seed)
    o2 = noise_gauss(a, snr=snr, snr_in_db=db)
    fails = []
    if o1.tobytes() != o2.tobytes():
        fails.append(fail("not-reproducible-under-seed", None, key))
    noise = o1 - a
    target = 10 ** (snr / 10.0) if db else snr
    emp = np.mean(a ** 2) / np.mean(noise ** 2)
    if abs(emp / target - 1) > 0.03:
        fails.append(fail("empirical-snr", {"observed": float(emp), "requested": target}, key))
    if abs(np.mean(noise)) > 5 * np.std(noise) / math.sqrt(n):
        fails.append(fail("noise-mean", {"mean": float(np.mean(noise))}, key))
    return fails, (sig, seed, snr, db, round(float(emp), 3))


def harnesses(tier, seed):
    quick = tier == "quick"
    kmax = 5 if quick else 6
    forms = [(q, True, None) for q in (-3, 0, 10, 40)] + [(q, False, None) for q in (0.5, 1, 100)] + [(None, True, 0.5), (None, True, 2.0), (None, False, None)]

    def body(ctx):
        k = ctx.choose(list(range(1, kmax + 1)), "k")
        path = ctx.choose(["process", "weaver"], "path")
        fi = ctx.choose(len(forms) + 2, "snr-form")
        for a in itertools.product(A.VPM, repeat=k):
            if not any(a):
                continue
            if fi < len(forms):
                snr, db, std = forms[fi]
                judge(ctx, check_noise, {"a": list(a), "snr": snr, "db": db, "std": std, "path": path}, bulk=True,
                      nontrivial=len(set(a)) > 1)
                if snr is not None and float(snr) == int(snr) and snr >= 0 and len(a) <= 3:
                    # the same request written with NumPy integer / low-precision scalar types
                    for sdt in ("uint8", "int32", "float32", "uint16"):
                        judge(ctx, check_noise, {"a": list(a), "snr": int(snr), "db": db, "std": std, "path": path, "snr_dtype": sdt},
                              bulk=True, nontrivial=len(set(a)) > 1)
            else:
                db = fi == len(forms)
                snr = [(10.0 + 5 * i) if db else (1.0 + i) for i in range(k)]
                for as_list in (False, True):
                    judge(ctx, check_noise, {"a": list(a), "snr": snr, "db": db, "std": None, "path": path, "snr_list": as_list},
                          bulk=True, nontrivial=len(set(a)) > 1)
                if len(a) <= 3:
                    for sdt in ("uint8", "int64", "float32"):
                        judge(ctx, check_noise, {"a": list(a), "snr": [int(v) for v in snr], "db": db, "std": None, "path": path,
                                                 "snr_list": False, "snr_dtype": sdt}, bulk=True, nontrivial=len(set(a)) > 1)
        if k == 3 and path == "weaver" and fi == 0:
            ctx.sample({"signals": "V+-^3 \\ {0}", "snr": forms[fi][0], "db": True, "path": path})

    def int_body(ctx):
        """integer-typed signals (counters in bit/s): magnitudes up to the largest a 64-bit / 32-bit counter holds"""
        adt, mag = ctx.choose([("int64", 1), ("int64", 10 ** 6), ("int64", 10 ** 9), ("int64", 10 ** 10), ("int64", 10 ** 18),
                               ("int32", 1000), ("int32", 10 ** 5), ("int32", 7 * 10 ** 8), ("uint8", 60), ("int16", 9000)], "dtype-magnitude")
        k = ctx.choose([1, 2, 3, 5, 24], "k")
        path = ctx.choose(["process", "weaver"], "path")
        vals = A.VPM if adt[0] != "u" else (0, 1, 2, 3)
        sigs = list(itertools.product(vals, repeat=k)) if k <= 3 else [tuple(vals[(3 * i + j) % 4] for i in range(k)) for j in range(4)]
        for a in sigs:
            if not any(a):
                continue
            for (snr, db, std) in ((10, True, None), (4.0, False, None), (None, True, 2.0)):
                judge(ctx, check_noise, {"a": [v * mag for v in a], "snr": snr, "db": db, "std": std, "path": path, "a_dtype": adt},
                      bulk=True, nontrivial=len(set(a)) > 1)

    long_lengths = [50, 400] + [v for v in A.sizes(0, 200000 if quick else 1100000, pow2=False) if v > 400]

    def long_body(ctx):
        L = ctx.choose(long_lengths, "len")
        pat = ctx.choose(3, "pattern")
        fi = ctx.choose(len(forms) if L <= 400 else 2, "snr-form")
        if L > 400:
            fi = (0, 5)[fi]
        a = [[math.sin(i / 7.0) * 3 + 1 for i in range(L)], [float((i * i) % 13 - 6) for i in range(L)],
             [(-1.0) ** i * (1 + 4.0 * i / L) for i in range(L)]][pat]      # the last one is not stationary: its power grows
        snr, db, std = forms[fi]
        for path in ("process", "weaver"):
            if L <= 400:
                judge(ctx, check_noise, {"a": a, "snr": snr, "db": db, "std": std, "path": path})
            else:
                judge(ctx, check_noise_long, {"len": L, "pattern": pat, "snr": snr, "db": db, "std": std, "path": path})

    def real_body(ctx):
        s = ctx.choose([0, 1, 2], "seed")
        sig = ctx.choose(["sine", "ramp", "square"], "signal")
        snr, db = ctx.choose([(10, True), (0, True), (30, True), (4.0, False)], "snr")
        judge(ctx, check_real, {"seed": s, "signal": sig, "snr": snr, "db": db}, calls=2)

    return [{"name": "scale-at-seam", "body": body}, {"name": "integer-typed-signals", "body": int_body}, {"name": "long-signals", "body": long_body},
            {"name": "real-generator", "body": real_body, "workers": None}]
