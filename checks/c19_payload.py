"""C19: shapes and sizes of the downloaded file.  The exploration of c19.py serves one small payload; everything
that depends on HOW MUCH is downloaded (hash loops, copy loops, decompression) is invisible there.  Here one loader
runs sequentially on payloads whose sizes cross powers of two and every integer constant found in the loader's source
(chunk sizes, buffer lengths), plain and gzip, single- and multi-member gzip archives, and - for every such payload -
on a copy with ONE byte changed in the first chunk / right after a chunk boundary / in the last bytes, which must be
refused (OSError) and never cached."""
import gzip as _gzip
import hashlib
import io
import os
import shutil
import warnings

import numpy as np

from mc import alphabets as A
from mc.engine import HarnessError
from mc.harness import fail, kind, judge
from mc.env import loaderenv as LE
from checks import c19

URL = "http://verif.invalid/shape.csv"


def csv_of_size(nbytes):
    """deterministic CSV 'i,value' whose length is exactly nbytes (>= 8); values from an LCG so that gzip cannot
    shrink it to nothing"""
    out = []
    size = 0
    i = 0
    state = 12345
    while True:
        state = (1103515245 * state + 12345) % (2 ** 31)
        row = ("%d,%d.%03d\n" % (i, state % 100000, state % 997)).encode()
        if size + len(row) > nbytes - 8:
            break
        out.append(row)
        size += len(row)
        i += 1
    rest = nbytes - size                       # 8 <= rest: one last row 'i,0.000...0\n' of exactly `rest` bytes
    head = ("%d,1." % i).encode()
    if rest < len(head) + 2:
        # not enough room for a full last row: grow the previous row's decimals instead
        last = out.pop() if out else b"0,1.5\n"
        last = last[:-1] + b"0" * rest + b"\n"
        out.append(last)
    else:
        out.append(head + b"5" * (rest - len(head) - 1) + b"\n")
    data = b"".join(out)
    if len(data) != nbytes:
        raise HarnessError("csv_of_size(%d) produced %d bytes" % (nbytes, len(data)))
    return data


def build(variant, size):
    """-> (served bytes, parsed expectation, gzip flag)"""
    if variant == "plain":
        raw = csv_of_size(size)
        return raw, raw, False
    if variant == "gzip":
        # an archive whose COMPRESSED size is at least `size`
        n = max(64, size)
        raw = csv_of_size(n)
        arch = _gzip.compress(raw, mtime=0)
        while len(arch) < size:
            n = int(n * 1.5) + 64
            raw = csv_of_size(n)
            arch = _gzip.compress(raw, mtime=0)
        return arch, raw, True
    if variant.startswith("gzip-members"):
        k = int(variant.split(":")[1])
        raw = csv_of_size(max(64, size))
        rows = raw.splitlines(keepends=True)
        cut = [len(rows) * j // k for j in range(k + 1)]
        arch = b"".join(_gzip.compress(b"".join(rows[cut[j]:cut[j + 1]]), mtime=0) for j in range(k))
        return arch, raw, True
    raise ValueError(variant)


def flip(data, pos):
    pos = max(0, min(len(data) - 1, pos))
    b = data[pos]
    nb = (b ^ 0x01) if chr(b).isdigit() else (b ^ 0x20)
    return data[:pos] + bytes([nb]) + data[pos + 1:]


@kind("payload-shape")
def check_payload(case):
    import traffic_weaver.datasets._base as B
    variant, size, corrupt_at = case["variant"], case["size"], case.get("corrupt_at")
    served, raw, gz = build(variant, size)
    with warnings.catch_warnings():
        warnings.simplefilter("ignore")
        expect = np.loadtxt(io.BytesIO(raw), delimiter=",", dtype=np.float64)
    key = {"harness": "payload-shapes", "variant": variant.split(":")[0], "corrupt": corrupt_at is not None}
    rem = B.RemoteFileMetadata("shape.csv.gz" if gz else "shape.csv", URL, hashlib.sha256(served).hexdigest())
    bad = None
    if corrupt_at is not None:
        pos = {"first": 3, "last": len(served) - 2}.get(corrupt_at, corrupt_at if isinstance(corrupt_at, int) else 0)
        bad = flip(served, pos)
        if bad == served:
            raise HarnessError("flip did not change the payload")
    home = c19.fresh_home()
    fails = []
    try:
        def call():
            return B.load_csv_dataset_from_remote(rem, "slot", "folder", data_home=home, n_retries=1, delay=1.0, gzip=gz)
        payloads = {URL: {"good": bad if bad is not None else served}}
        w = LE.World([call], home, payloads=payloads)
        w.max_net_calls = 4
        w.run_to_end(0)
        lc = w.loaders[0]
        w.close()
        res = lc.result
        if res[0] == "exc" and "HarnessError" in res[1]:
            raise HarnessError(res[2])
        slot = os.path.join(home, "folder", "slot")
        st = LE.slot_state(slot, good=expect)
        if bad is not None:
            if res[0] == "ok":
                fails.append(fail("unchecked-or-wrong-data-returned", {"size": len(served), "changed_byte": pos}, key))
            elif res[1] != "OSError":
                fails.append(fail("wrong-exception", {"observed": res[1:3], "expected": "OSError"}, key))
            if st != "absent":
                fails.append(fail("unchecked-data-cached", {"slot": st if isinstance(st, str) else st[0]}, key))
            return fails, (variant, size, str(corrupt_at), res[0])
        if res[0] != "ok":
            fails.append(fail("valid-load-failed", {"size": len(served), "result": res[:3]}, key))
            return fails, (variant, size, None, res[1])
        d = res[1]
        if not (isinstance(d, np.ndarray) and d.shape == expect.shape and np.array_equal(d, expect)):
            fails.append(fail("unchecked-or-wrong-data-returned", {"size": len(served), "observed_shape": getattr(d, "shape", None),
                                                                   "expected_shape": expect.shape}, key))
        if st != "good":
            fails.append(fail("cache-entry-corrupt" if isinstance(st, tuple) else "cache-state", {"slot": st if isinstance(st, str) else st[0]}, key))
        # a later load, offline, returns exactly that data
        w2 = LE.World([call], home, answer_fn=lambda lc_, url: "URLError", payloads=payloads)
        w2.run_to_end(0)
        l2 = w2.loaders[0]
        w2.close()
        if l2.net_calls:
            fails.append(fail("cached-dataset-needed-network", {"net_calls": l2.net_calls}, key))
        r2 = l2.result
        if r2[0] != "ok" or not (isinstance(r2[1], np.ndarray) and r2[1].shape == expect.shape and np.array_equal(r2[1], expect)):
            fails.append(fail("later-offline-load-failed", {"result": r2[:2] if r2[0] != "ok" else "other data"}, key))
        return fails, (variant, size, None, "ok")
    finally:
        shutil.rmtree(home, ignore_errors=True)


DEFAULT_SIZES = (64, 4097, 8193, 65537, 262145 + 17)


def size_alphabet(tier):
    cap = 1200000 if tier == "quick" else 4300000
    s = set(DEFAULT_SIZES if tier == "quick" else DEFAULT_SIZES + (1048577 + 5,))
    for c in A.code_constants(lo=256, hi=2 ** 21, subpath="datasets"):
        s.update([c - 1, c, c + 1, 2 * c, 2 * c + 1, 3 * c + 7])
    return sorted(v for v in s if 64 <= v <= cap)


def body_factory(tier):
    sizes = size_alphabet(tier)

    def body(ctx):
        variant = ctx.choose(["plain", "gzip", "gzip-members:2", "gzip-members:3"], "variant")
        size = ctx.choose(sizes if variant in ("plain", "gzip") else sizes[:4], "size")
        judge(ctx, check_payload, {"variant": variant, "size": size, "corrupt_at": None}, calls=2)
        spots = ["first", "last"] + [c + 1 for c in A.code_constants(lo=256, hi=2 ** 21, subpath="datasets") if c + 1 < size - 2][:3]
        if size > 8193:
            spots.append(8193)
        for sp in spots:
            judge(ctx, check_payload, {"variant": variant, "size": size, "corrupt_at": sp}, calls=1)
    return body, sizes
