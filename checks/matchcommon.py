"""Shared case checker for integral matching (C01 integral clauses, C03 displacement clauses)."""
import itertools
import math
from fractions import Fraction as F

import numpy as np

from mc.harness import kind, fail
from mc.refmodel import match as RM
from mc import alphabets as A

RULES = ("trapezoid", "rectangle")


def call_impl(case):
    from traffic_weaver.match import integral_matching_reference_stretch as f
    if case.get("scribble") and case["mode"] == "search":
        # history: the caller looked the fixed points up itself through the public search helper and then
        # edited the index array it was handed (its own copy, as far as it can tell)
        from traffic_weaver.sorted_array_utils import find_closest_element_indices_to_values as g
        idx = g(np.array(case["x"], dtype=float), np.array(case["xr"], dtype=float), strategy=case["strategy"])
        try:
            idx[...] = 0
        except Exception:
            pass
    kw = dict(target_function_integral_method=case["tr"], reference_function_integral_method=case["rr"],
              alpha=case["alpha"])
    if case["mode"] == "search":
        kw["fixed_points_finding_strategy"] = case["strategy"]
    elif case["mode"] == "values":
        kw["fixed_points_in_x"] = list(case["fixed"]) if case.get("fixed_as_list") else np.array(case["fixed"], dtype=float)
    else:
        kw["fixed_points_indices_in_x"] = list(case["fixed"]) if case.get("fixed_as_list") else np.array(case["fixed"])
    if case["mode"] != "search" and case.get("strategy"):
        # documented: the search strategy only matters when fixed points are NOT given
        kw["fixed_points_finding_strategy"] = case["strategy"]
    if case.get("as_list"):
        return f(list(case["x"]), list(case["y"]), list(case["xr"]), list(case["yr"]), **kw)
    yd = case.get("y_dtype", "float64")
    if yd == "int-list":          # "every finite y": integer-typed input is a legal way to write it
        yarg = [int(v) for v in case["y"]]
    else:
        yarg = np.array(case["y"], dtype=yd)
    return f(np.array(case["x"], dtype=float), yarg, np.array(case["xr"], dtype=float),
             np.array(case["yr"], dtype=float), **kw)


def selection(case):
    return RM.fixed_selection([float(v) for v in case["x"]], [float(v) for v in case["xr"]], case["mode"],
                              (case.get("strategy") or "closest") if case["mode"] == "search" else "closest", case.get("fixed"))


def _span(x, z, rule, a, b):
    """integral from sample a to sample b under `rule` (correctly rounded sum; the comparison
    tolerance is 1e-9, seven orders above the rounding error)."""
    if rule == "rectangle":
        return math.fsum(z[j] * (x[j + 1] - x[j]) for j in range(a, b))
    return math.fsum((z[j] + z[j + 1]) / 2 * (x[j + 1] - x[j]) for j in range(a, b))


@kind("match")
def check_match(case):
    """Returns (fails, sig).  Clauses are prefixed with the property they belong to."""
    sel = selection(case)
    if sel[0] != "ok":
        return [], ("filtered", sel[0])
    _, fidx, ridx = sel
    x = [float(v) for v in case["x"]]
    y = [float(v) for v in case["y"]]
    ysc = case.get("y_scale", 1.0)
    if ysc != 1.0:
        # same shape at another magnitude: a large baseline (small relative variation) or a tiny scale
        y = [v + ysc for v in y] if ysc > 1 else [v * ysc for v in y]
        case = dict(case, y=y, y_dtype="float64", y_scale=1.0,
                    yr=[float(v) + ysc for v in case["yr"]] if ysc > 1 else [float(v) * ysc for v in case["yr"]])
    xr = [float(v) for v in case["xr"]]
    yr = [float(v) for v in case["yr"]]
    alpha = case["alpha"]
    key = {"mode": case["mode"], "strategy": case.get("strategy"), "tr": case["tr"], "rr": case["rr"]}
    fails = []
    y_in = np.array(y, dtype=float)
    keep = y_in.copy()
    try:
        z = case["_z"] if "_z" in case else call_impl(case)
    except Exception as e:  # noqa
        k = dict(key)
        k["exc"] = type(e).__name__
        return [fail("C01:raised", {"exception": repr(e)}, k)], ("raised", type(e).__name__)
    z = np.asarray(z)
    if z.shape != (len(x),) or not np.all(np.isfinite(z)):
        return [fail("C01:shape", {"shape": z.shape}, key)], ("shape",)
    zf = [float(v) for v in z]
    width = x[-1] - x[0]
    # tolerance relative to the magnitude of the data (integrals of y and of the reference)
    mag = max(max(abs(v) for v in y), max(abs(v) for v in yr), 1e-300)
    scale = mag * max(width, abs(xr[-1] - xr[0]))
    tol = 1e-9 * scale
    targets = RM.reference_targets(xr, yr, case["rr"], ridx)
    # C01: every interval, and the total
    tot = 0.0
    targets = [float(t) for t in targets]
    # absolute integral of the reference over each matched reference span: the scale at which the target itself is known
    # (a target may be a cancelling sum of much larger terms)
    ref_abs = [math.fsum(abs(v) for v in RM.rule_integrals(xr, [abs(v) for v in yr], case["rr"])[ra:rb]) for ra, rb in zip(ridx[:-1], ridx[1:])]
    reported = False
    for i, ((a, b), t) in enumerate(zip(zip(fidx[:-1], fidx[1:]), targets)):
        got = _span(x, zf, case["tr"], a, b)
        tot += got
        if reported:
            continue
        # each interval is judged at ITS OWN scale (its target, the absolute integral of what was there before and
        # after), so that a small interval next to a huge one is still matched to rounding
        loc = max(abs(t), math.fsum(abs(y[j]) * (x[j + 1] - x[j]) for j in range(a, b)),
                  math.fsum(abs(zf[j]) * (x[j + 1] - x[j]) for j in range(a, b)), 1e-300, float(ref_abs[i]),
                  case.get("local_floor", 0.0) * scale)
        if case.get("inexact_grid"):
            # on grids that are not exactly representable the weight at a shared fixed point is +-1 ulp instead of 0, so
            # a neighbouring interval's stretch leaks ~1e-16 of ITS scale into this one
            nb = [j for j in (i - 1, i + 1) if 0 <= j < len(targets)]
            for j in nb:
                a2, b2 = fidx[j], fidx[j + 1]
                loc = max(loc, 1e-4 * max(abs(targets[j]), float(ref_abs[j]), math.fsum(abs(zf[q]) * (x[q + 1] - x[q]) for q in range(a2, b2))))
        if abs(float(got - t)) > 1e-9 * loc:
            fails.append(fail("C01:interval-integral", {"interval": i, "samples": [a, b], "expected": float(t),
                                                        "observed": float(got), "fixed": fidx, "ref_idx": ridx}, key))
            reported = True
    if abs(tot - math.fsum(targets)) > tol * len(targets):
        fails.append(fail("C01:total-integral", {"expected": math.fsum(targets), "observed": tot}, key))
    # C03 (i): outside untouched (bytes), fixed points
    lo, hi = fidx[0], fidx[-1]
    if zf[:lo] != y[:lo] or zf[hi + 1:] != y[hi + 1:]:
        fails.append(fail("C03:outside-span-changed", {"fixed": fidx, "z": zf, "y": y}, key))
    for i in fidx:
        if abs(zf[i] - y[i]) > 1e-12 * max(mag, abs(y[i])):
            fails.append(fail("C03:fixed-point-moved", {"index": i, "z": zf[i], "y": y[i]}, key))
            break
    # C03 (ii): displacement profile, one sign, proportional to the documented weights
    for (a, b) in zip(fidx[:-1], fidx[1:]):
        c_, wd_ = (x[a] + x[b]) / 2, x[b] - x[a]
        w = [1 - (2 * abs(c_ - v) / wd_) ** alpha for v in x[a:b + 1]]
        d = [zf[j] - y[j] for j in range(a, b + 1)]
        md = max(abs(v) for v in d)
        eps = 1e-12 * mag + 1e-9 * md
        if any(v > eps for v in d) and any(v < -eps for v in d):
            fails.append(fail("C03:mixed-direction", {"window": [a, b], "d": d}, key))
            break
        bad = False
        for i in range(len(d)):
            for j in range(i + 1, len(d)):
                if abs(d[i] * w[j] - d[j] * w[i]) > eps:
                    bad = True
        if bad:
            fails.append(fail("C03:profile", {"window": [a, b], "d": d, "w": w}, key))
            break
    # C03 (iii): idempotence
    if not fails:
        c2 = dict(case, y_dtype="float64")
        c2["y"] = zf
        try:
            z2 = [float(v) for v in call_impl(c2)]
            ytol = 1e-9 * max(mag, max(abs(v) for v in zf))     # values, not integrals: relative to the value scale
            if any(abs(p - q) > ytol for p, q in zip(z2, zf)):
                fails.append(fail("C03:not-idempotent", {"first": zf, "second": z2}, key))
        except Exception as e:  # noqa
            fails.append(fail("C03:not-idempotent", {"exception": repr(e)}, key))
    if not np.array_equal(y_in, keep):
        fails.append(fail("C03:input-mutated", None, key))
    moved = sum(1 for p, q in zip(zf, y) if p != q)
    return fails, (len(x), tuple(fidx), tuple(ridx), case["tr"], case["rr"], moved > 0)


def only(prefix, fails):
    out = []
    for f in fails:
        if f["clause"].startswith(prefix + ":"):
            g = dict(f)
            g["clause"] = f["clause"].split(":", 1)[1]
            out.append(g)
    return out


RULEPAIRS = [(t, r) for t in RULES for r in RULES]


def _judge(ctx, case, prefix, checker=None):
    case = dict(case)
    case["kind"] = "match" if checker is None else checker.kind
    fails, sig = (checker or check_match)(case)
    ctx.call(2)
    ctx.bulk(1)
    for f in only(prefix, fails):
        ctx.fail(f["clause"], case, f.get("detail"), f.get("key"))
    if sig is None:
        return
    if sig[0] == "filtered":
        ctx.note("filtered_out_in_checker")
    else:
        ctx.outcome(sig, nontrivial=bool(sig[-1]))


def value_vectors(k, full):
    sp = A.spanning_values(k, extra=True)
    return sp if full else [sp[0], sp[1 + k // 2], sp[k + 1], sp[k + 2]]


def make_selection_body(grids, L, rmax, images, alphas, prefix):
    """stage 1: every way of designating fixed points, against a reduced value alphabet."""
    lat = [float(v) for v in A.half_lattice(-1, L + 1)]

    def body(ctx):
        g = ctx.choose(grids, "grid")
        iname, img = ctx.choose(images, "image")
        mode = ctx.choose(["closest", "lower", "higher", "values", "indices"], "mode")
        x = [img(v) for v in g]
        k = len(x)
        ys = value_vectors(k, False)
        n_raw = n_ok = 0
        explicit = mode in ("values", "indices")
        if explicit and iname not in ("id", "x-3", "x/2^30"):
            ctx.note("explicit_modes_skipped_for_image")      # explicit designation is enumerated on three images only
            return
        for r in range(2, (min(rmax, 3) if explicit else rmax) + 1):
            for pos in itertools.combinations(lat, r):
                xr = [img(v) for v in pos]
                if mode in ("closest", "lower", "higher"):
                    variants = [("search", mode, None)]
                elif mode == "values":
                    # every admissible subset of samples of size r as explicit fixed positions
                    variants = [("values", (None, "lower", "higher", "closest")[(si + r) % 4], [x[i] for i in sub])
                                for si, sub in enumerate(itertools.combinations(range(k), r))
                                if all(b - a >= 2 for a, b in zip(sub[:-1], sub[1:]))]
                else:
                    variants = [("indices", (None, "higher", "lower", "closest")[(si + r) % 4], list(sub))
                                for si, sub in enumerate(itertools.combinations(range(k), r))
                                if all(b - a >= 2 for a, b in zip(sub[:-1], sub[1:]))]
                for (m, strat, fixed) in variants:
                    n_raw += 1
                    sel = RM.fixed_selection(x, xr, m, (strat or "closest") if m == "search" else "closest", fixed)
                    if sel[0] != "ok":
                        ctx.note("filtered_" + sel[0])
                        continue
                    n_ok += 1
                    # rule pair and exponent cycle deterministically through all combinations
                    tr, rr = RULEPAIRS[n_ok % 4]
                    al = alphas[(n_ok // 4) % len(alphas)]
                    yv = ys[n_ok % len(ys)]
                    yr = [((3 * i + n_ok) % 5) - 1 for i in range(r)]
                    _judge(ctx, prefix=prefix, case={"x": x, "y": list(yv), "xr": xr, "yr": yr, "mode": m, "strategy": strat,
                                 "fixed": fixed, "tr": tr, "rr": rr, "alpha": al,
                                 "fixed_as_list": bool(n_ok % 2), "inexact_grid": iname == "0.1x+0.3",
                                 "y_dtype": ("float64", "int64", "int-list")[(n_ok // 3) % 3]})
        ctx.note("raw_cases", n_raw)
        ctx.note("admissible_cases", n_ok)
        if k == 5 and mode == "closest" and iname == "x-3":
            ctx.sample({"x": x, "mode": mode, "reference_tuples": "all increasing %d..%d-tuples of the half lattice" % (2, rmax)})
    return body


def make_value_body(grids, alphas, prefix):
    """stage 2: all rule pairs x exponents x spanning values, fixed points = every admissible
    subset of samples (reference on the grid and off the grid by a half step)."""
    def body(ctx):
        g = ctx.choose(grids, "grid")
        tr, rr = ctx.choose(RULEPAIRS, "rules")
        al = ctx.choose(alphas, "alpha")
        off = ctx.choose([0.0, 0.25, -0.25], "ref_offset")
        x = [float(v) for v in g]
        k = len(x)
        n = 0
        for r in (2, 3, 4):
            for sub in itertools.combinations(range(k), r):
                if any(b - a < 2 for a, b in zip(sub[:-1], sub[1:])):
                    continue
                xr = [x[i] + off for i in sub]
                for yv in value_vectors(k, True):
                    for yr in ([1] * r, list(range(r)), [(-2) ** i for i in range(r)], [1e12] + [1e-6 * (i + 1) for i in range(r - 1)]):
                        n += 1
                        _judge(ctx, prefix=prefix, case={"x": x, "y": list(yv), "xr": xr, "yr": yr, "mode": "search", "strategy": "closest",
                                     "fixed": None, "tr": tr, "rr": rr, "alpha": al,
                                     "y_dtype": ("float64", "int64", "int-list")[n % 3] if max(abs(v) for v in yr) < 1e6 else "float64",
                                     "y_scale": (1.0, 1.0, 1.0, 2.5e6, 1e-9)[n % 5] if max(abs(v) for v in yr) < 1e6 else 1.0,
                                     "scribble": n % 4 == 1})
        if k == 6 and al == 2 and off == 0.0:
            ctx.sample({"x": x, "rules": [tr, rr], "alpha": al, "fixed_subsets": "all with gaps >= 2", "cases": n})
    return body




def long_case(c):
    """decode a long-interval case: `counts` samples per interval (fixed point to fixed point), first fixed point at sample
    `lead`, `tail` samples after the last one; the grid kind decides the spacing INSIDE the intervals"""
    counts, lead, tail, gk = c["counts"], c["lead"], c["tail"], c["grid"]
    n = lead + sum(counts) + 1 + tail
    if gk == "twin":
        # every interval has the same width and the same number of samples but its own layout
        raise ValueError("twin grids are built by twin_case")
    x = A.long_grid(n, gk)
    y = A.long_values(n, c.get("y", "saw"))
    pos = [lead]
    for k in counts:
        pos.append(pos[-1] + k)
    off = c.get("ref_offset", 0.0)
    xr = [x[i] + off * (x[min(i + 1, n - 1)] - x[i]) for i in pos]
    yr = [float((3 * i) % 5 - 1) for i in range(len(pos))]
    return {"x": x, "y": y, "xr": xr, "yr": yr, "mode": c["mode"], "strategy": c.get("strategy"),
            "fixed": ([x[i] for i in pos] if c["mode"] == "values" else pos if c["mode"] == "indices" else None),
            "tr": c["tr"], "rr": c["rr"], "alpha": c["alpha"], "kind": "match"}


@kind("match-long")
def check_match_long(case):
    from mc.harness import shrink
    fails, sig = check_match(long_case(case))
    if sig and sig[0] == "filtered":
        return fails, sig
    return shrink(fails, long=True), (None if sig is None else ("long", tuple(case["counts"]), case["lead"], case["grid"], case["mode"], case.get("strategy"), sig[-1]))


TWIN_LAYOUTS = {3: [(0, 1, 4), (0, 2, 4), (0, 3, 4)], 4: [(0, 1, 2, 4), (0, 1, 3, 4), (0, 2, 3, 4)], 5: [(0, 1, 2, 3, 4)],
                6: [(0, 1, 2, 3, 5, 8), (0, 1, 4, 6, 7, 8), (0, 3, 4, 5, 6, 8)]}


@kind("match-twin")
def check_match_twin(case):
    """intervals of equal width and equal sample count whose samples sit at different relative positions"""
    lay = [tuple(l) for l in case["layouts"]]
    w = lay[0][-1]
    x = [0.0]
    for j, l in enumerate(lay):
        x += [float(j * w + v) for v in l[1:]]
    pos = [0]
    for l in lay:
        pos.append(pos[-1] + len(l) - 1)
    c = {"x": x, "y": [float((3 * i) % 5 - 2) for i in range(len(x))], "xr": [x[i] for i in pos], "yr": [float((2 * i) % 3 + 1) for i in range(len(pos))],
         "mode": case["mode"], "strategy": "closest", "fixed": ([x[i] for i in pos] if case["mode"] == "values" else pos if case["mode"] == "indices" else None),
         "tr": case["tr"], "rr": case["rr"], "alpha": case["alpha"], "kind": "match"}
    fails, sig = check_match(c)
    for f in fails:
        f["key"] = dict(f.get("key") or {}, twin=True)
    return fails, sig


def make_long_body(prefix, quick):
    """(a) long intervals: the number of samples per interval runs through the size alphabet (every count up to 40,
    2^k+1, the neighbourhood of every integer constant in the code), the first fixed point sits at sample 0 / 1 / 5, the
    reference on the grid or a quarter step off it; (b) twin intervals: equal width, equal count, different layout"""
    counts_alphabet = [v for v in A.sizes(40 if quick else 72, 1100 if quick else 9000, minimum=2)]

    def body(ctx):
        fam = ctx.choose(["long", "twin"], "family")
        tr, rr = ctx.choose(RULEPAIRS, "rules")
        al = ctx.choose([1, 2, 0.5], "alpha")
        if fam == "twin":
            for cnt, lays in TWIN_LAYOUTS.items():
                for l1 in lays:
                    for l2 in lays:
                        for mode in ("search", "indices"):
                            _judge(ctx, prefix=prefix, case={"layouts": [list(l1), list(l2)], "mode": mode, "tr": tr, "rr": rr, "alpha": al},
                                   checker=check_match_twin)
            return
        gk = ctx.choose(["uniform", "gaps"], "grid")
        lead = ctx.choose([0, 1, 5], "lead")
        for cnt in counts_alphabet:
            for (mode, strat, off) in (("search", "closest", 0.0), ("search", "lower", 0.0), ("search", "higher", 0.0), ("search", "higher", -0.25),
                                       ("search", "lower", 0.25), ("indices", None, 0.0)):
                if lead == 0 and off < 0:
                    continue
                _judge(ctx, prefix=prefix, case={"counts": [cnt, cnt, max(2, cnt // 2)], "lead": lead, "tail": 2, "grid": gk, "mode": mode,
                                                 "strategy": strat, "ref_offset": off, "tr": tr, "rr": rr, "alpha": al},
                       checker=check_match_long)
    return body, counts_alphabet


WEAVER_HIST_OPS = [("recreate", "linfix", 2), ("recreate", "pconst", 3), ("recreate", "expada", 2), ("restore_original",),
                   ("truncate_by_value", "absA"), ("truncate_by_value", "absB"), ("truncate_by_index", 1, None), ("append", True),
                   ("repeat", 2), ("shift_x", 1.0), ("scale_y", 2.0), ("interpolate_n", 7, "linear")]


@kind("weaver-match")
def check_weaver_match(case):
    """the same clauses judged on what Weaver.integral_match produces in an arbitrary state: the working
    series before the call is (x, y), the current reference is (x_ref, y_ref)"""
    import copy
    import warnings
    from checks import weaverops as WO
    r = WO.Runner(WO.INITS[case["init"]])
    for op in case["ops"]:
        op = tuple(op)
        if r.concretize(op) is None:
            return [], ("filtered", "disabled-op")
        r.apply(op)
    gx, gy = r.wv.get()
    rx, ry = r.wv.get_reference()
    c = {"kind": "match", "x": WO.fl(gx), "y": WO.fl(gy), "xr": WO.fl(rx), "yr": WO.fl(ry), "mode": "search", "strategy": "closest",
         "fixed": None, "tr": case["tr"], "rr": "rectangle", "alpha": 1.0,
         # the series reached through a history are themselves results of floating-point operations: an interval
         # whose content is rounding residue of its neighbours is judged no finer than 1e-12 of the global scale
         "local_floor": 1e-3}
    if selection(c)[0] != "ok":
        return [], ("filtered", "not-admissible")
    with warnings.catch_warnings():
        warnings.simplefilter("ignore")
        try:
            c["_z"] = np.asarray(copy.deepcopy(r.wv).integral_match(target_function_integral_method=case["tr"]).get()[1], dtype=float)
        except Exception as e:  # noqa
            return [fail("C01:raised", {"exception": repr(e)}, {"path": "weaver", "exc": type(e).__name__})], ("raised",)
    fails, sig = check_match(c)
    for f in fails:
        f["key"] = dict(f.get("key") or {}, path="weaver-history")
    return fails, sig


def make_weaver_body(prefix, depth):
    def body(ctx):
        ii = ctx.choose([0, 1, 3], "init")
        ops = [ctx.choose(WEAVER_HIST_OPS, "op%d" % d) for d in range(depth)]
        for tr in RULES:
            case = {"kind": "weaver-match", "init": ii, "ops": [list(o) for o in ops], "tr": tr}
            fails, sig = check_weaver_match(case)
            ctx.call(2)
            ctx.case(1)
            for f in only(prefix, fails):
                ctx.fail(f["clause"], case, f.get("detail"), f.get("key"))
            if sig[0] == "filtered":
                ctx.note("filtered_" + sig[1])
            else:
                ctx.outcome(("weaver",) + tuple(sig), nontrivial=bool(sig[-1]))
    return body
