"""C19: all interleavings of loaders of two DIFFERENT datasets that share one dataset folder (explicit-state
BFS, <=1 crash): neither loader may see, overwrite or remove anything of the other; each returns and caches
its own verified data."""
import hashlib
import io
import os
import pickle
import shutil

import numpy as np

from mc import engine
from mc.engine import HarnessError
from mc.harness import fail, kind
from mc.env import loaderenv as LE
from checks import c19

DS = {
    "A": {"url": "http://verif.invalid/a.csv", "slot": "dataset-a", "file": "a_2024.csv", "payload": b"0,1.5\n1,2.25\n2,5\n3,0.5\n"},
    "B": {"url": "http://verif.invalid/b.csv", "slot": "dataset-b", "file": "b_2024.csv", "payload": b"0,7\n1,8.5\n2,9\n3,4\n4,1\n"},
}
for _d in DS.values():
    _d["good"] = np.loadtxt(io.BytesIO(_d["payload"]), delimiter=",", dtype=np.float64)


def make_call(home, ds):
    import traffic_weaver.datasets._base as B
    d = DS[ds]
    rem = B.RemoteFileMetadata(d["file"], d["url"], hashlib.sha256(d["payload"]).hexdigest())

    def call():
        return B.load_csv_dataset_from_remote(rem, d["slot"], "folder", data_home=home, n_retries=1, delay=1.0)
    return call


def _world(home, dss, events):
    payloads = {d["url"]: (d["payload"], False) for d in DS.values()}
    w = LE.World([make_call(home, ds) for ds in dss], home, payloads=payloads)
    for ev in events:
        if c19._TOLERANT[0] and ev[1] not in w.enabled():
            continue
        w.step(ev[1], crash=(ev[0] == "crash"))
    return w


def _slot(home, ds):
    return LE.slot_state(os.path.join(home, "folder", DS[ds]["slot"]), good=DS[ds]["good"])


def _expand(item):
    dss, events, max_crash = item
    home = c19.fresh_home()
    try:
        w = _world(home, dss, events)
        crashes = sum(1 for e in events if e[0] == "crash")
        per = []
        for lc, ds in zip(w.loaders, dss):
            r = lc.result
            rs = None if r is None else (("ok", bool(isinstance(r[1], np.ndarray) and np.array_equal(r[1], DS[ds]["good"]))) if r[0] == "ok" else r[:2])
            per.append((ds, lc.done, lc.killed, lc.pending, tuple(lc.log), rs))
        key = engine.sig_hash((tuple(sorted(per, key=repr)), w.snapshot(), crashes))
        en = []
        for tid in w.enabled():
            en.append(("run", tid))
            if crashes < max_crash:
                en.append(("crash", tid))
        fails = []
        k = {"harness": "two-datasets-one-folder"}
        for ds in set(dss):
            st = _slot(home, ds)
            if st not in ("absent", "good"):
                fails.append(fail("cache-entry-corrupt", {"dataset": ds, "slot": st}, dict(k, slot=st[1])))
        for lc, ds in zip(w.loaders, dss):
            if lc.result is None or lc.result[0] == "killed":
                continue
            if lc.result[0] == "exc" and "HarnessError" in lc.result[1]:
                raise HarnessError(lc.result[2])
            if lc.result[0] != "ok":
                fails.append(fail("concurrent-load-failed", {"dataset": ds, "result": lc.result[:3]}, dict(k, exc=lc.result[1])))
            elif not np.array_equal(lc.result[1], DS[ds]["good"]):
                fails.append(fail("wrong-dataset-returned", {"dataset": ds}, k))
        if not en and not fails:
            for lc, ds in zip(w.loaders, dss):
                if lc.result and lc.result[0] == "ok" and _slot(home, ds) != "good":
                    fails.append(fail("cache-state", {"dataset": ds, "slot": _slot(home, ds)}, k))
            # later loads return each dataset's own data without network if cached
            w.close()
            for ds in sorted(set(dss)):
                st = _slot(home, ds)
                w2 = LE.World([make_call(home, ds)], home, payloads={d["url"]: (d["payload"], False) for d in DS.values()})
                w2.run_to_end(0)
                lc = w2.loaders[0]
                w2.close()
                if lc.result[0] != "ok" or not np.array_equal(lc.result[1], DS[ds]["good"]):
                    fails.append(fail("later-load-wrong", {"dataset": ds, "result": lc.result[:2]}, k))
                elif st == "good" and lc.net_calls:
                    fails.append(fail("cached-dataset-needed-network", {"dataset": ds}, k))
        else:
            w.close()
        return key, en, fails
    finally:
        shutil.rmtree(home, ignore_errors=True)


@kind("schedule-two-datasets")
def check_schedule(case):
    events = [tuple(e) for e in case["events"]]
    c19._TOLERANT[0] = True       # see c19.check_schedule
    try:
        for _ in range(400):
            key, en, fails = _expand((case["datasets"], events, 1))
            if fails or not en:
                return fails
            events = events + [min((e for e in en if e[0] == "run"), key=lambda e: e[1])]
        return []
    finally:
        c19._TOLERANT[0] = False


def bfs(dss, max_crash, name):
    st = engine.Stats()
    key, en, fails = _expand((dss, [], max_crash))
    seen = {key}
    frontier = [([], en)]
    st.states = 1
    depth = 0
    while frontier:
        tasks = [(dss, h + [e], max_crash) for (h, en) in frontier for e in en]
        res = engine.pmap("bfs-" + name, _expand, tasks, chunksize=max(1, len(tasks) // 256))
        nxt = []
        for (d_, h, _m), (key, en, fails) in zip(tasks, res):
            st.transitions += 1
            st.executions += 1
            st.calls += len(dss)
            for f in fails:
                case = {"kind": "schedule-two-datasets", "datasets": dss, "events": [list(e) for e in h]}
                st.add_failure({"clause": f["clause"], "case": engine.jsonable(case), "detail": engine.jsonable(f.get("detail")),
                                "key": engine.jsonable(f.get("key")), "choices": None, "labels": None})
            if key in seen:
                continue
            seen.add(key)
            st.states += 1
            st.outcomes.add(key)
            if len(set(e[1] for e in h)) > 1:
                st.nontrivial.add(key)
            if en:
                nxt.append((h, en))
            elif len(st.samples) < 1:
                st.samples.append({"datasets": dss, "schedule": [list(e) for e in h][:50]})
        frontier = nxt
        depth += 1
    st.max_depth = depth
    st.cases = st.executions
    st.counters["bfs_%s_states" % name] = st.states
    return st


def harnesses(tier, seed):
    quick = tier == "quick"
    hs = [{"name": "2-loaders-two-datasets-one-folder+1crash", "run": (lambda: bfs(["A", "B"], 1, "AB")),
           "bound_text": "all interleavings, <=1 crash (explicit-state BFS)"}]
    if not quick:
        hs.append({"name": "3-loaders-A-A-B-one-folder", "run": (lambda: bfs(["A", "A", "B"], 0, "AAB")),
                   "bound_text": "all interleavings (explicit-state BFS)"})
    return hs
