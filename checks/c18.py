"""C18 - every documented dataset is reachable by name and well-formed (finite configuration space)."""
import hashlib
import io
import itertools
import os
import re
import shutil

import numpy as np

from mc.harness import fail, kind, judge
from mc.harness import replay as _replay
from mc.env import loaderenv as LE

PROPERTY = "C18"
RULE = ("enumerated completely: the 95 names parsed from the four shipped description tables, in every '-'/'_' spelling of "
        "every separator, x unpack flag; remote names run against a scripted network with TRAFFIC_WEAVER_DATA and HOME "
        "pointing into a scratch directory; ~200 unknown names (one character dropped/appended, empty, non-loader "
        "attributes); global distinctness of URL / checksum / remote file name / cache slot over all remote datasets. "
        "Signature = (name, spelling, unpack, outcome); non-trivial = spelling differs from the documented one or remote")
ASSUMPTIONS = ["the pinned SHA-256 values cannot be compared with the real remote files offline: their shape (64 hex digits) "
               "and distinctness are checked, and the loader body runs with the checksum of the fake payload served for the URL "
               "(a wrapper around the one call that carries the RemoteFileMetadata; the loader itself runs unmodified)"]
ANCHORS = {"datasets/_base.py": [(54, 65), (68, 97)], "datasets/_datasets.py": [(1, 78)], "datasets/_ams_ix.py": [(137, 152)]}
FORMS_HARNESSES = None
EXPLANATION = "complete enumeration of a finite configuration space"

TABLES = ["sandvine.md", "mix_it.md", "ams_ix.md", "ix_br.md"]


def bounds(tier, seed):
    return {"documented_names": 95, "spellings": "all 2^k separator spellings", "unpack": [False, True]}


_names_cache = None


def documented_names():
    """[(name, table)] parsed from the shipped description tables"""
    global _names_cache
    if _names_cache is None:
        from traffic_weaver.datasets._base import load_dataset_description
        out = []
        for t in TABLES:
            for line in load_dataset_description(t).splitlines():
                m = re.match(r"^\|\s*(\d+)\s*\|\s*([^|]+?)\s*\|", line)
                if m:
                    out.append((m.group(2).strip(), t))
        _names_cache = out
    return _names_cache


def remote_dataset_names():
    return [n for n, t in documented_names() if t != "sandvine.md"]


def spellings(name):
    seps = [i for i, c in enumerate(name) if c in "-_"]
    out = []
    for combo in itertools.product("-_", repeat=len(seps)):
        s = list(name)
        for i, c in zip(seps, combo):
            s[i] = c
        out.append("".join(s))
    return out


def payload_for_url(url):
    h = int(hashlib.sha256(url.encode()).hexdigest()[:8], 16)
    rows = ["%d,%d.%d" % (i, (h >> (3 * i)) % 97, (h + i) % 10) for i in range(5)]
    return ("\n".join(rows) + "\n").encode()


def data_for_url(url):
    return np.loadtxt(io.BytesIO(payload_for_url(url)), delimiter=",", dtype=np.float64)


class _Payloads(dict):
    def __missing__(self, url):
        return (payload_for_url(url), False)


class DatasetEnv:
    """scratch data home + HOME, scripted network serving a distinct payload per URL, and a wrapper
    around load_csv_dataset_from_remote that swaps in the checksum of that payload"""

    MODULES = ["_mix_it", "_ams_ix", "_ix_br"]

    def __init__(self, home, answer="good"):
        self.home = home
        self.data_home = os.path.join(home, "data-home")
        self.fake_home = os.path.join(home, "user-home")
        self.meta = []
        self.answer = answer

    def __enter__(self):
        import importlib
        LE.install()
        os.makedirs(self.fake_home, exist_ok=True)
        self.saved_env = {k: os.environ.get(k) for k in ("TRAFFIC_WEAVER_DATA", "HOME")}
        os.environ["TRAFFIC_WEAVER_DATA"] = self.data_home
        os.environ["HOME"] = self.fake_home
        import traffic_weaver.datasets._base as B
        self.B = B
        real = B.load_csv_dataset_from_remote
        env = self

        def wrapper(remote, dataset_filename, dataset_folder, **kw):
            env.meta.append({"filename": remote.filename, "url": remote.url, "checksum": remote.checksum,
                             "dataset_filename": dataset_filename, "dataset_folder": dataset_folder,
                             "validate_checksum": kw.get("validate_checksum", "default"), "data_home": kw.get("data_home")})
            r2 = remote._replace(checksum=hashlib.sha256(payload_for_url(remote.url)).hexdigest())
            return real(r2, dataset_filename, dataset_folder, **kw)
        self.patched = []
        for m in self.MODULES:
            mod = importlib.import_module("traffic_weaver.datasets." + m)
            self.patched.append((mod, mod.load_csv_dataset_from_remote))
            mod.load_csv_dataset_from_remote = wrapper
        return self

    def __exit__(self, *a):
        for mod, orig in self.patched:
            mod.load_csv_dataset_from_remote = orig
        for k, v in self.saved_env.items():
            if v is None:
                os.environ.pop(k, None)
            else:
                os.environ[k] = v

    def load(self, name, unpack=False):
        from traffic_weaver.datasets import load_dataset

        def call():
            return load_dataset(name, unpack_dataset_columns=unpack) if unpack else load_dataset(name)
        w = LE.World([call], self.home, answer_fn=lambda lc, url: self.answer, payloads=_Payloads())
        w.run_to_end(0)
        lc = w.loaders[0]
        w.close()
        self.last = lc
        return lc.result


_url_cache = {}


def url_of(name):
    """URL the loader of `name` asks for (learnt by running it once in a throw-away environment)"""
    if name not in _url_cache:
        home = LE.make_scratch()
        try:
            with DatasetEnv(home) as env:
                env.load(name)
                _url_cache[name] = env.last.urls[0] if env.last.urls else None
        finally:
            LE.remove_scratch(home)
    return _url_cache[name]


def expected_data(name):
    return data_for_url(url_of(name))


def _walk(d):
    out = []
    for dp, dn, fn in os.walk(d):
        for f in fn:
            out.append(os.path.relpath(os.path.join(dp, f), d))
        for x in dn:
            out.append(os.path.relpath(os.path.join(dp, x), d) + "/")
    return sorted(out)


@kind("dataset-name")
def check_name(case):
    name, spelling, unpack, remote = case["name"], case["spelling"], case["unpack"], case["remote"]
    key = {"table": case["table"], "remote": remote}
    home = LE.make_scratch()
    fails = []
    try:
        with DatasetEnv(home) as env:
            res = env.load(spelling, unpack)
            lc = env.last
            if res[0] != "ok":
                return [fail("documented-name-not-loadable", {"name": spelling, "result": [str(v).replace(home, "<home>") for v in res[:3]]},
                             dict(key, exc=res[1] if res[0] == "exc" else res[0]))], None
            d = res[1]
            if unpack:
                if not (isinstance(d, tuple) and len(d) == 2):
                    return [fail("unpack-not-two-columns", {"type": type(d).__name__}, key)], None
                arr = np.column_stack(d)
            else:
                arr = d
            if not (isinstance(arr, np.ndarray) and arr.ndim == 2 and arr.shape[1] == 2 and arr.dtype == np.float64 and arr.shape[0] >= 2):
                fails.append(fail("not-(samples,2)-float64", {"shape": getattr(arr, "shape", None), "dtype": str(getattr(arr, "dtype", None))}, key))
            elif not np.all(np.isfinite(arr)):
                fails.append(fail("not-finite", None, key))
            elif not np.all(np.diff(arr[:, 0]) > 0):
                fails.append(fail("first-column-not-increasing", {"x": arr[:, 0]}, key))
            if not remote:
                if lc.net_calls:
                    fails.append(fail("bundled-dataset-used-network", {"urls": lc.urls}, key))
            else:
                if lc.net_calls != 1 or len(env.meta) != 1:
                    fails.append(fail("not-exactly-one-download", {"urls": lc.urls, "loader_calls": len(env.meta)}, key))
                else:
                    m = env.meta[0]
                    if not np.array_equal(arr, data_for_url(m["url"])):
                        fails.append(fail("returned-data-is-not-the-downloaded-file", {"url": m["url"]}, key))
                    if m["validate_checksum"] is not True and m["validate_checksum"] != "default":
                        fails.append(fail("checksum-validation-disabled", {"validate_checksum": m["validate_checksum"]}, key))
                    if not re.fullmatch(r"[0-9a-f]{64}", m["checksum"] or ""):
                        fails.append(fail("checksum-not-sha256-hex", {"checksum": m["checksum"]}, key))
                    slot = os.path.join(env.data_home, m["dataset_folder"], m["dataset_filename"])
                    if not os.path.isfile(slot):
                        fails.append(fail("cache-not-under-TRAFFIC_WEAVER_DATA", {"expected": slot.replace(home, "<home>"), "data_home": _walk(env.data_home) if os.path.isdir(env.data_home) else None}, key))
            if _walk(env.fake_home):
                fails.append(fail("files-created-under-HOME", {"created": _walk(env.fake_home)}, key))
            meta = env.meta[0] if env.meta else None
        return fails, (name, spelling == name, unpack, meta["url"] if meta else None)
    finally:
        LE.remove_scratch(home)


@kind("all-names-one-process")
def check_all_in_one_process(case):
    """a HISTORY of requests in one process and one data home: every documented name, in the given order, `passes` times.
    Later passes find the remote datasets cached: same data, no network."""
    docs = documented_names()
    names = [n for n, _t in docs]
    tables = dict(docs)
    if case["order"] == "reverse":
        names = names[::-1]
    elif case["order"] == "interleaved":
        names = names[::2] + names[1::2]
    home = LE.make_scratch()
    fails = []
    key = {"harness": "history", "order": case["order"]}
    first = {}
    try:
        with DatasetEnv(home) as env:
            for p_ in range(case["passes"]):
                for i, name in enumerate(names):
                    remote = tables[name] != "sandvine.md"
                    n_meta = len(env.meta)
                    res = env.load(name)
                    lc = env.last
                    if res[0] != "ok":
                        fails.append(fail("documented-name-not-loadable", {"name": name, "pass": p_, "position": i,
                                                                           "result": [str(v).replace(home, "<home>") for v in res[:3]]},
                                          dict(key, exc=res[1] if res[0] == "exc" else res[0])))
                        return fails, None
                    d = res[1]
                    if p_ == 0:
                        first[name] = np.array(d, copy=True)
                        if remote and len(env.meta) == n_meta + 1 and not np.array_equal(d, data_for_url(env.meta[-1]["url"])):
                            fails.append(fail("returned-data-is-not-the-downloaded-file", {"name": name, "position": i}, key))
                            return fails, None
                    else:
                        if not (isinstance(d, np.ndarray) and d.shape == first[name].shape and np.array_equal(d, first[name])):
                            fails.append(fail("later-load-returns-other-data", {"name": name, "pass": p_, "position": i}, key))
                            return fails, None
                        if remote and lc.net_calls:
                            fails.append(fail("cached-dataset-needed-network", {"name": name, "pass": p_, "position": i}, key))
                            return fails, None
                    try:
                        d[...] = -1.0          # the caller owns what it was handed
                    except Exception:
                        pass
        return fails, ("history", case["order"], case["passes"], len(names))
    finally:
        LE.remove_scratch(home)


@kind("unknown-name")
def check_unknown(case):
    name = case["name"]
    home = LE.make_scratch()
    try:
        with DatasetEnv(home) as env:
            res = env.load(name)
            if res[0] == "exc" and res[1] == "ValueError":
                return [], ("unknown", name)
            if res[0] == "ok":
                return [fail("unknown-name-accepted", {"name": name}, {"kind": "unknown"})], None
            return [fail("unknown-name-wrong-exception", {"name": name, "result": res[:3]}, {"kind": "unknown", "exc": res[1]})], None
    finally:
        LE.remove_scratch(home)


@kind("distinctness")
def check_distinct(case):
    home = LE.make_scratch()
    fails = []
    metas = {}
    try:
        with DatasetEnv(home) as env:
            for name in remote_dataset_names():
                env.meta.clear()
                res = env.load(name)
                if env.meta:
                    metas[name] = dict(env.meta[0])
        for field, proj in (("url", lambda m: m["url"]), ("checksum", lambda m: m["checksum"]), ("filename", lambda m: m["filename"]),
                            ("cache-slot", lambda m: (m["dataset_folder"], m["dataset_filename"]))):
            seen = {}
            for name, m in metas.items():
                v = proj(m)
                if v in seen:
                    fails.append(fail("datasets-share-" + field, {"datasets": [seen[v], name], field: v}, {"field": field, "pair": sorted([seen[v], name])}))
                else:
                    seen[v] = name
        return fails, ("distinct", len(metas))
    finally:
        LE.remove_scratch(home)


def replay(case):
    return _replay(case)


def unknown_names():
    valid = set()
    for n, t in documented_names():
        valid.update(spellings(n))
    cands = ["", " ", "sandvine", "sandvine_", "fetch_mix_it_bologna_daily", "load_sandvine_audio", "mix_it_dataset_description",
             "RemoteFileMetadata", "load_dataset", "_base", "SANDVINE_AUDIO", "Mix-It-Bologna_Daily", "ix-br", "ams-ix", "mix-it"]
    # every attribute visible in the lookup namespaces, as it is and with a loader prefix stripped: none
    # of them is a documented dataset name (unless it is one)
    import importlib
    for modname in ("_datasets", "_base", "_sandvine", "_mix_it", "_ams_ix", "_ix_br"):
        try:
            mod = importlib.import_module("traffic_weaver.datasets." + modname)
        except Exception:
            continue
        for attr in dir(mod):
            if attr.startswith("__"):
                continue
            cands.append(attr)
            for pre in ("load_", "fetch_"):
                if attr.startswith(pre):
                    rest = attr[len(pre):]
                    cands.append(rest)
                    cands.append(rest.replace("_", "-"))
    docs = [n for n, t in documented_names()]
    for n in docs[::2]:
        i = (len(n) * 7) % len(n)
        cands.append(n[:i] + n[i + 1:])
        cands.append(n + "x")
        cands.append(n[:-1])
        cands.append("x" + n)
    out = []
    for c in cands:
        if c not in valid and c not in out:
            out.append(c)
    return out


def harnesses(tier, seed):
    docs = documented_names()

    def names_body(ctx):
        i = ctx.choose(len(docs), "name")
        name, table = docs[i]
        for sp in spellings(name):
            for unpack in (False, True):
                judge(ctx, check_name, {"name": name, "spelling": sp, "unpack": unpack, "remote": table != "sandvine.md",
                                        "table": table}, bulk=True, nontrivial=lambda s: (not s[1]) or s[3] is not None)
        if i % 30 == 0:
            ctx.sample({"name": name, "spellings": spellings(name)[:4], "table": table})

    unk = unknown_names()

    def unknown_body(ctx):
        n = ctx.choose(unk, "unknown-name")
        judge(ctx, check_unknown, {"name": n})

    def distinct_body(ctx):
        judge(ctx, check_distinct, {}, calls=len(remote_dataset_names()))

    def history_body(ctx):
        order = ctx.choose(["forward", "reverse", "interleaved"], "order")
        judge(ctx, check_all_in_one_process, {"order": order, "passes": 3}, calls=3 * len(docs))

    return [{"name": "documented-names", "body": names_body}, {"name": "unknown-names", "body": unknown_body},
            {"name": "all-names-in-one-process", "body": history_body, "bound_text": "all documented names x 3 passes x 3 orders in one process and one data home"},
            {"name": "distinctness", "body": distinct_body}]
