"""C07 - recreation commutes with changes of units and acts locally (E1, metamorphic)."""
import itertools
from fractions import Fraction as F

import numpy as np

from mc import alphabets as A
from mc.harness import kind, fail, judge, replay  # noqa: F401
from checks import rfacommon as RC
from checks import windowcommon as W

PROPERTY = "C07"
RULE = ("base cases: y in {0,1,3}^6 (quick) / V^6 (thorough) x x-patterns x n x reduced parameter alphabet x 6 "
        "strategies; for each: 4 value maps (generic reals for non-adaptive, exact dyadic/integer maps for adaptive), "
        "4 time-axis maps, every single-value replacement (locality), and the weight matrix W=[rfa(e_j)] reproduced on "
        "the whole value lattice. Signature = (relation, strategy, n, rounded output); non-trivial = output not constant")
ASSUMPTIONS = ["tolerance 1e-9 relative to the mapped magnitudes; dyadic maps are compared exactly (bytes)",
               "adaptive strategies: only exactly representable value maps (their integer windows are discontinuous in the data)"]
ANCHORS = {"funfit.py": [(36, 38)], "rfa.py": [(270, 280), (431, 455), (481, 498)]}
FORMS_HARNESSES = "all"
EXPLANATION = "metamorphic relations between pairs of real runs over a bounded lattice"

ADAPTIVE = ("linada", "expada")
# units: a large baseline (3e6, 2^22) and tiny units (2^-30, 1e-9) are changes of units like any other
VMAPS_GENERIC = [(2.0, 0.0), (-1.0, 0.0), (0.5, 3.0), (-3.7, 1.25), (1.0, -2.0), (1.0, 3e6), (2.0 ** -30, 0.0), (1e-9, 0.0)]
VMAPS_EXACT = [(2.0, 0.0), (-1.0, 0.0), (0.25, 0.0), (1.0, 3.0), (1.0, -2.0), (1.0, float(2 ** 22)), (2.0 ** -30, 0.0)]     # (1,-2) makes the series change sign
TMAPS = [(2.0, 0.0), (1.0, 5.0), (0.1, -3.3), (8.0, 1.0), (1.0, float(2 ** 20)), (0.5, -float(2 ** 24)), (1.0, float(2 ** 32))]


def bounds(tier, seed):
    return {"m": 6, "y": "{0,1,3}^6" if tier == "quick" else "V^6", "value_maps": 5, "time_maps": len(TMAPS)}


def _run(st, x, y, n, p):
    xs, ys = RC.run(st, x, y, n, p)
    return np.asarray(xs, dtype=float), np.asarray(ys, dtype=float)


@kind("valuemap")
def check_valuemap(case):
    st, x, y, n, p, a, b = (case[k] for k in ("strategy", "x", "y", "n", "p", "a", "b"))
    xs0, ys0 = _run(st, x, y, n, p)
    y2 = [a * v + b for v in y]
    xs1, ys1 = _run(st, x, y2, n, p)
    import math
    # relative to the MAPPED variation (|a| * scale of y), plus the rounding of values at the mapped level
    tol = 1e-9 * abs(a) * max(1.0, max(abs(float(v)) for v in y)) + 32 * math.ulp(max(abs(v) for v in y2) or 1.0)
    exp = a * ys0 + b
    fails = []
    key = {"strategy": st, "relation": "value-map"}
    if xs1.tobytes() != xs0.tobytes():
        fails.append(fail("value-map-changed-x", None, key))
    if np.any(np.abs(ys1 - exp) > tol):
        i = int(np.argmax(np.abs(ys1 - exp)))
        fails.append(fail("value-map", {"a": a, "b": b, "sample": i, "observed": ys1[i], "expected": exp[i],
                                        "mapped_run": ys1, "map_of_run": exp}, key))
    return fails, ("v", st, n, a, b, tuple(np.round(ys1, 9)))


@kind("timemap")
def check_timemap(case):
    st, x, y, n, p, c, d = (case[k] for k in ("strategy", "x", "y", "n", "p", "c", "d"))
    # history: a different grid with the same length, end points and n is recreated first (a result may
    # depend only on the arguments of the call, not on what was recreated before in this process)
    alt = [x[0] + (x[-1] - x[0]) * i / (len(x) - 1) for i in range(len(x))]
    if alt != list(x):
        _run(st, alt, y, n, p)
    xs0, ys0 = _run(st, x, y, n, p)
    x2 = [c * v + d for v in x]
    if case.get("in_place"):
        # the caller converts the units of ITS OWN abscissa array in place and recreates again with the same object
        xa = np.array(x, dtype=float)
        C_ = RC.cls(st)
        C_(xa, np.array(y, dtype=float), n, **RC.kwargs_for(st, p)).rfa()
        xa *= c
        xa += d
        r1 = C_(xa, np.array(y, dtype=float), n, **RC.kwargs_for(st, p)).rfa()
        xs1, ys1 = np.asarray(r1[0], dtype=float), np.asarray(r1[1], dtype=float)
        x2 = [float(v) for v in xa]
    else:
        xs1, ys1 = _run(st, x2, y, n, p)
    fails = []
    key = {"strategy": st, "relation": "time-map"}
    sx = max(1.0, max(abs(v) for v in x2))
    sy = max(1.0, max(abs(float(v)) for v in y))
    # conditioning: after a large shift the abscissae carry a rounding error of one ulp of their
    # magnitude, which the fits divide by the sample spacing; allow for it explicitly
    import math
    cond = math.ulp(sx) / float(np.min(np.diff(xs1)))
    sy = sy * (1.0 + 16.0 * cond / 1e-9)
    if np.any(np.abs(xs1 - (c * xs0 + d)) > 1e-9 * sx):
        fails.append(fail("time-map-abscissae", {"c": c, "d": d, "observed": xs1, "expected": c * xs0 + d}, key))
    if np.any(np.abs(ys1 - ys0) > 1e-9 * sy):
        i = int(np.argmax(np.abs(ys1 - ys0)))
        fails.append(fail("time-map-values", {"c": c, "d": d, "sample": i, "observed": ys1[i], "expected": ys0[i],
                                              "mapped_run": ys1, "base_run": ys0}, key))
    return fails, ("t", st, n, c, d, tuple(np.round(ys1, 9)))


def _allowed(st, j, m, n):
    r = 2 if st in ADAPTIVE else 1
    lo = max(0, j - r) * n
    hi = min(m - 1, j + r + 1) * n   # exclusive, but the very last sample index (m-1)*n is 'interval' m-1
    return lo, hi


@kind("locality")
def check_locality(case, ys0=None, ys1=None):
    st, x, y, n, p, j, v = (case[k] for k in ("strategy", "x", "y", "n", "p", "j", "v"))
    m = len(x)
    if ys0 is None:
        ys0 = _run(st, x, y, n, p)[1]
        y2 = list(y)
        y2[j] = v
        ys1 = _run(st, x, y2, n, p)[1]
    key = {"strategy": st, "relation": "locality"}
    if st == "spline":
        return [], None
    r = 2 if st in ADAPTIVE else 1
    changed = [i for i in range(len(ys0)) if ys0[i] != ys1[i]]
    bad = [i for i in changed if not (j - r <= (i // n) <= j + r)]
    if bad:
        return [fail("non-local-change", {"j": j, "replacement": v, "changed_samples": changed,
                                          "offending_intervals": sorted(set(i // n for i in bad))}, key)], None
    return [], ("l", st, n, j, len(changed) > 0)


@kind("linearity")
def check_linearity(case, ys=None, basis=None):
    st, x, y, n, p = (case[k] for k in ("strategy", "x", "y", "n", "p"))
    m = len(x)
    key = {"strategy": st, "relation": "linearity"}
    if basis is None:
        basis = [_run(st, x, [1.0 if i == j else 0.0 for i in range(m)], n, p)[1] for j in range(m)]
        ys = _run(st, x, y, n, p)[1]
    Wm = np.array(basis).T      # samples x m
    fails = []
    comb = Wm @ np.array([float(v) for v in y])
    sc = max(1.0, max(abs(float(v)) for v in y))
    if np.any(np.abs(comb - ys) > 1e-9 * sc):
        i = int(np.argmax(np.abs(comb - ys)))
        fails.append(fail("not-linear", {"sample": i, "observed": ys[i], "W@y": comb[i]}, key))
    rs = Wm.sum(axis=1)
    if np.any(np.abs(rs - 1.0) > 1e-9):
        fails.append(fail("weights-do-not-sum-to-one", {"row_sums": rs}, key))
    if st != "spline" and np.any(Wm < -1e-12):
        fails.append(fail("negative-weight", {"min": float(Wm.min())}, key))
    return fails, ("w", st, n, tuple(np.round(rs, 9)))


@kind("locality-long")
def check_locality_long(case):
    """locality and the unit maps on long series (the number of averages crosses powers of two and the code's constants)"""
    from mc.harness import shrink
    m, gk, st, n, p, j = case["len"], case["grid"], case["strategy"], case["n"], case["p"], case["j"]
    x = A.long_grid(m, gk)
    y = A.long_values(m, "saw")
    fails = []
    f1, sig = check_locality({"strategy": st, "x": x, "y": y, "n": n, "p": p, "j": j, "v": y[j] + 2.5})
    fails += f1
    if case.get("maps"):
        for (a, b) in ((2.0, 0.0), (1.0, 3e6) if st not in ADAPTIVE else (1.0, float(2 ** 22))):
            fails += check_valuemap({"strategy": st, "x": x, "y": y, "n": n, "p": p, "a": a, "b": b})[0]
        fails += check_timemap({"strategy": st, "x": x, "y": y, "n": n, "p": p, "c": 2.0, "d": 0.0})[0]
    return shrink(fails, long=True), ("ll", st, n, m, gk, j)


def harnesses(tier, seed):
    quick = tier == "quick"
    vals = (0, 1, 3) if quick else A.V
    xpats = [W.XPATTERNS6[0], W.XPATTERNS6[1 + seed % 3]] if quick else W.XPATTERNS6[:3]
    ns = [2, 4] + ([[3], [8]][seed % 2] if quick else [3, 8])
    lattice = list(itertools.product(vals, repeat=6))

    def psets(st, n):
        if st not in RC.WINDOW:
            return [{}]
        full = RC.param_sets(st, n, alphas=[F(1, 2), F(1)], betas=[F(0), F(1, 2)], exps=[F(1, 2), 2, 3], smooths=[1, 3],
                             explicit_a=False)
        return full[seed % 2::2] if quick and len(full) > 4 else full

    def body(ctx):
        st = ctx.choose(RC.STRATS, "strategy")
        xp = ctx.choose(xpats, "x")
        n = ctx.choose(ns, "n")
        p = RC.pkey(ctx.choose(psets(st, n), "params"))
        x = [float(v) for v in xp]
        m = len(x)
        # history: a different grid with the same length, end points and n is recreated first
        alt0 = [x[0] + (x[-1] - x[0]) * i / (m - 1) for i in range(m)]
        if alt0 != x:
            _run(st, alt0, list(lattice[1]), n, p)
        base = {}
        for y in lattice:
            base[y] = _run(st, x, list(y), n, p)[1]
        ctx.call(len(lattice))
        vmaps = VMAPS_EXACT if st in ADAPTIVE else VMAPS_GENERIC
        # metamorphic maps: on a spanning subset of the lattice for every map, and on the whole lattice
        # for one map selected by position (all maps hit every tie pattern across the enumeration)
        for idx, y in enumerate(lattice):
            a, b = vmaps[idx % len(vmaps)]
            judge(ctx, check_valuemap, {"strategy": st, "x": x, "y": list(y), "n": n, "p": p, "a": a, "b": b}, calls=2, bulk=True,
                  nontrivial=lambda s: len(set(s[-1])) > 1)
            c, d = TMAPS[(idx // 4) % len(TMAPS)]
            judge(ctx, check_timemap, {"strategy": st, "x": x, "y": list(y), "n": n, "p": p, "c": c, "d": d, "in_place": idx % 3 == 1}, calls=2, bulk=True,
                  nontrivial=lambda s: len(set(s[-1])) > 1)
        # locality: every single-value replacement inside the lattice (no extra runs needed)
        for y in lattice:
            for j in range(m):
                for v in vals:
                    if v == y[j]:
                        continue
                    y2 = y[:j] + (v,) + y[j + 1:]
                    case = {"kind": "locality", "strategy": st, "x": x, "y": list(y), "n": n, "p": p, "j": j, "v": v}
                    fails, sig = check_locality(case, base[y], base[y2])
                    ctx.bulk(1)
                    for f in fails:
                        ctx.fail(f["clause"], case, f.get("detail"), f.get("key"))
                    if sig:
                        ctx.outcome(sig, nontrivial=sig[-1])
        # linearity of the non-adaptive strategies on the whole lattice
        if st not in ADAPTIVE:
            basis = [base[tuple(1 if i == j else 0 for i in range(m))] for j in range(m)]
            for y in lattice:
                case = {"kind": "linearity", "strategy": st, "x": x, "y": list(y), "n": n, "p": p}
                fails, sig = check_linearity(case, base[y], basis)
                ctx.bulk(1)
                for f in fails:
                    ctx.fail(f["clause"], case, f.get("detail"), f.get("key"))
                if sig:
                    ctx.outcome(sig)
        if st == "linfix" and n == 2 and xp == W.XPATTERNS6[0]:
            ctx.sample({"strategy": st, "x": x, "n": n, "p": p, "y": "whole lattice ^6", "value_maps": vmaps, "time_maps": TMAPS})

    lsizes = A.sizes(40 if quick else 72, 1100 if quick else 9000, minimum=4)

    def long_body(ctx):
        st = ctx.choose(RC.STRATS, "strategy")
        gk = ctx.choose(["uniform", "gaps"], "grid")
        n = ctx.choose([2, 12] if quick else [2, 5, 12, 32], "n")
        p = RC.pkey(psets(st, n)[0])
        for m in [ctx.choose(lsizes, "len")]:
            if m * n > (5000 if quick else 40000):
                continue
            js = A.interesting_indices(m - 1, dense_to=12, limit=10)
            for k, j in enumerate(js):
                judge(ctx, check_locality_long, {"len": m, "grid": gk, "strategy": st, "n": n, "p": p, "j": j, "maps": k == 0},
                      calls=2 + (6 if k == 0 else 0), bulk=True)

    return [{"name": "metamorphic", "body": body},
            {"name": "long-series", "body": long_body,
             "bound_text": "every number of averages 4..%d, 2^k+1 and around every integer constant of the code up to %d; locality at the interesting positions, unit maps" % (40 if quick else 72, lsizes[-1])}]
