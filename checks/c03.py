"""C03 - matching moves only interior samples, along the documented profile (E1)."""
import itertools
from fractions import Fraction as F

import numpy as np

from mc import alphabets as A
from mc.harness import kind, fail
from mc.harness import replay as _replay
from mc.refmodel import match as RM
from checks import matchcommon as M
from checks import c01

PROPERTY = "C03"
PREFIX = "C03"
RULE = ("the C01 input space judged by the displacement clauses (outside-span bytes, fixed points, one direction, "
        "d_i*w_j == d_j*w_i against the documented weights, idempotence) plus the kernel basis sweep: every grid of "
        "3..8 points on {0..10} and two rational images x integer exponents 1..3 x both rules, one closed window, "
        "measured images of the basis (y=0,P=0), (y=e_j,P=0), (y=0,P=1) compared with exact Fraction images and "
        "affinity checked on further lattice points. Non-trivial = at least one sample displaced")
ASSUMPTIONS = c01.ASSUMPTIONS + ["kernel sweep: exact for integer exponents; affinity in (y, P) is checked on a basis "
                                 "plus 5 lattice combinations, not proved for all reals"]
ANCHORS = {"match.py": [(247, 256), (264, 264), (334, 338)]}
FORMS_HARNESSES = "all"
FORMS_SKIP_QUICK = ("long-and-twin-intervals",)   # long inputs under every form: thorough tier only (cost)
FORMS_WIDTH = {"long-and-twin-intervals": 2}
EXPLANATION = c01.EXPLANATION


def bounds(tier, seed):
    b = c01.bounds(tier, seed)
    b["kernel_sweep"] = "grids of 3..%d points on {0..10}, 3 images, alpha 1..3, 2 rules" % (6 if tier == "quick" else 8)
    return b


def replay(case):
    if case.get("kind") == "kernel":
        return _replay(case)
    return M.only(PREFIX, _replay(case))


def _run_kernel(x, y, P, rule, alpha):
    """one closed window over the whole grid through the public function: two-point rectangle
    reference whose integral is P."""
    from traffic_weaver.match import integral_matching_reference_stretch as f
    width = x[-1] - x[0]
    return f(np.array([float(v) for v in x]), np.array([float(v) for v in y]), np.array([float(x[0]), float(x[-1])]),
             np.array([float(P) / float(width), 0.0]), target_function_integral_method=rule,
             reference_function_integral_method="rectangle", alpha=alpha)


@kind("kernel")
def check_kernel(case):
    x = [F(v) for v in case["x"]]
    rule, alpha = case["rule"], case["alpha"]
    k = len(x)
    key = {"rule": rule, "alpha": alpha}
    fails = []
    basis = [([0] * k, 0)] + [([1 if i == j else 0 for i in range(k)], 0) for j in range(k)] + [([0] * k, 1)]
    imgs = []
    for (y, P) in basis:
        z = [float(v) for v in _run_kernel(x, y, P, rule, alpha)]
        ref = RM.stretch_window(x, y, F(P), rule, alpha)
        if any(abs(a - float(b)) > 1e-12 * max(1.0, abs(float(b))) for a, b in zip(z, ref)):
            fails.append(fail("kernel-basis-image", {"y": y, "P": P, "observed": z, "expected": [float(v) for v in ref]}, key))
            break
        imgs.append(z)
    if not fails:
        z0 = imgs[0]
        extra = [([2, -1, 3, 0, 5, 1, -2, 4][:k], 3), ([1] * k, -2), (list(range(k)), 7), ([(-1) ** i * 2 for i in range(k)], 0),
                 ([5 - i for i in range(k)], 11)]
        for (y, P) in extra:
            z = [float(v) for v in _run_kernel(x, y, P, rule, alpha)]
            comb = [z0[i] + sum(y[j] * (imgs[1 + j][i] - z0[i]) for j in range(k)) + P * (imgs[k + 1][i] - z0[i])
                    for i in range(k)]
            ref = RM.stretch_window(x, y, F(P), rule, alpha)
            sc = max(1.0, max(abs(float(v)) for v in ref))
            if any(abs(a - b) > 1e-10 * sc for a, b in zip(z, comb)):
                fails.append(fail("kernel-not-affine", {"y": y, "P": P, "observed": z, "combination": comb}, key))
                break
            if any(abs(a - float(b)) > 1e-10 * sc for a, b in zip(z, ref)):
                fails.append(fail("kernel-image", {"y": y, "P": P, "observed": z, "expected": [float(v) for v in ref]}, key))
                break
    return fails, (k, rule, alpha, tuple(round(v, 9) for v in imgs[-1]) if imgs else None)


def harnesses(tier, seed):
    quick = tier == "quick"
    hs = []
    for h in c01.harnesses(tier, seed):
        if h["name"] == "selection":
            L = 7 if quick else 9
            grids = A.grids(L, 5) + A.grids(L, 6) if quick else [g for k in (5, 6, 7, 8) for g in A.grids(L, k)]
            images = [c01.IMAGES[1], c01.IMAGES[[6, 0, 2, 3, 4, 5][seed % 6]]] if quick else c01.IMAGES
            hs.append({"name": "selection", "body": M.make_selection_body(grids, L, 3 if quick else 4, images, c01.ALPHAS, PREFIX),
                       "bound_text": h["bound_text"]})
        elif h["name"] == "values":
            vg = A.grids(6, 5) + A.grids(6, 6) if quick else [g for k in (5, 6, 7) for g in A.grids(8, k)]
            hs.append({"name": "values", "body": M.make_value_body(vg, c01.ALPHAS, PREFIX), "bound_text": h["bound_text"]})
    hs.append({"name": "weaver-integral_match-in-every-state", "body": M.make_weaver_body(PREFIX, 3 if quick else 4),
               "bound_text": "all programs over 12 Weaver operations to depth %d, then integral_match" % (3 if quick else 4)})
    kmax = 6 if quick else 8
    kgrids = [g for k in range(3, kmax + 1) for g in A.grids(10, k)]
    kimages = [("id", lambda v: F(v)), ("x/3+1/7", lambda v: F(v, 3) + F(1, 7)), ("5x/8-2", lambda v: F(5 * v, 8) - 2)]

    def kernel_body(ctx):
        g = ctx.choose(kgrids, "grid")
        iname, img = ctx.choose(kimages, "image")
        rule = ctx.choose(M.RULES, "rule")
        alpha = ctx.choose([1, 2, 3], "alpha")
        x = [img(v) for v in g]
        case = {"kind": "kernel", "x": x, "rule": rule, "alpha": alpha}
        fails, sig = check_kernel(case)
        ctx.call(len(x) + 7)
        for f in fails:
            ctx.fail(f["clause"], case, f.get("detail"), f.get("key"))
        ctx.outcome(sig)
        if len(x) == 4 and iname == "id" and rule == "trapezoid":
            ctx.sample({"kernel_grid": g, "rule": rule, "alpha": alpha})

    hs.append(c01._long_harness(PREFIX, quick))
    hs.append({"name": "kernel-basis", "body": kernel_body,
               "bound_text": "grids of 3..%d points on {0..10} x 3 rational images x 2 rules x alpha 1..3" % kmax})
    return hs
