"""C19 extension (DESIGN.md 5.6): a TLA+ model of the cache protocol checked by TLC for up to 16
loaders, bound to the code by replaying EVERY edge of the N=2 (and N=3) per-loader state graph
against the real loader under the baton scheduler."""
import collections
import os
import re
import shutil
import subprocess
import tempfile
import time

from mc import engine
from mc.engine import HarnessError
from mc.harness import fail, kind
from mc.env import loaderenv as LE
from checks import c19

MODELS = os.path.join(os.path.dirname(os.path.dirname(os.path.abspath(__file__))), "models")


def run_tlc(spec, consts, dump=None, workers=1, timeout=3600):
    """returns dict(states, generated, depth, ok, out, dot)"""
    tmp = tempfile.mkdtemp(prefix="twtlc-", dir="/tmp")
    try:
        cfg = os.path.join(tmp, "m.cfg")
        with open(cfg, "w") as f:
            f.write("CONSTANTS " + "\n          ".join("%s = %s" % kv for kv in consts.items()) + "\nINIT Init\nNEXT Next\nINVARIANT Inv\n")
        shutil.copy(os.path.join(MODELS, spec + ".tla"), tmp)
        cmd = ["tlc", "-workers", str(workers), "-noGenerateSpecTE", "-metadir", os.path.join(tmp, "md"), "-deadlock"]
        if dump:
            cmd += ["-dump", "dot,actionlabels", os.path.join(tmp, "graph")]
        cmd += ["-config", cfg, os.path.join(tmp, spec + ".tla")]
        r = subprocess.run(cmd, capture_output=True, text=True, timeout=timeout, cwd=tmp)
        out = r.stdout + r.stderr
        m = re.search(r"(\d+) states generated, (\d+) distinct states found", out)
        d = re.search(r"depth of the complete state graph search is (\d+)", out)
        res = {"ok": "No error has been found" in out, "generated": int(m.group(1)) if m else 0,
               "states": int(m.group(2)) if m else 0, "depth": int(d.group(1)) if d else 0, "out": out[-1500:]}
        if dump:
            with open(os.path.join(tmp, "graph.dot")) as f:
                res["dot"] = f.read()
        return res
    finally:
        shutil.rmtree(tmp, ignore_errors=True)


def parse_dot(dot):
    """-> (nodes: id -> state dict, edges: list of (src, dst, action, loader), init id)"""
    nodes, edges, init = {}, [], None
    for line in dot.splitlines():
        m = re.match(r'^(-?\d+) -> (-?\d+) \[label="(\w+)\((\d+)\)"', line)
        if m:
            edges.append((m.group(1), m.group(2), m.group(3), int(m.group(4))))
            continue
        m = re.match(r'^(-?\d+) \[label="((?:[^"\\]|\\.)*)"', line)
        if m:
            lab = m.group(2).replace('\\"', '"').replace("\\\\", "\\")
            st = {}
            st["slot"] = re.search(r'slot = "(\w+)"', lab).group(1)
            st["faults"] = int(re.search(r"faults = (\d+)", lab).group(1))
            st["crashes"] = int(re.search(r"crashes = (\d+)", lab).group(1))
            st["pc"] = re.findall(r'"(\w+)"', re.search(r"pc = <<(.*?)>>", lab).group(1))
            nodes[m.group(1)] = st
            if "style = filled" in line:
                init = m.group(1)
    return nodes, edges, init


# ---- abstraction of the implementation state ---------------------------------------------------------
def impl_pc(lc):
    """model location of a live loader, or None at an intermediate (model-invisible) boundary"""
    if lc.killed:
        return "crashed"
    if lc.done:
        return "ok" if (lc.result and lc.result[0] == "ok" and c19.is_good(lc.result)) else "failed"
    p = lc.pending
    log = lc.log
    seen_slot_stat = any(len(i) == 3 and i[0] == "stat" and i[1] == "/folder/slot" for i in log)
    if not seen_slot_stat:
        return "start" if p == ("start",) else None
    if p is None:
        return None
    if p[0] == "net":
        fails_ = sum(1 for i in log if len(i) == 2 and i[0] == "net" and i[1] in ("URLError", "HTTPError", "TimeoutError", "ContentTooShortError"))
        return "net1" if fails_ == 0 else "net0"
    if p[0] == "open" and p[1] == "/folder/slot" and p[2] == "r":
        return "read"
    if p[0] == "open" and p[2] == "r" and p[1].endswith("/data.csv"):
        opened = sum(1 for i in log if len(i) == 3 and i[0] == "open" and i[1] == p[1] and i[2] == "r")
        if opened == 0:
            last = [i[1] for i in log if len(i) == 2 and i[0] == "net"][-1]
            return "fetched_good" if last == "good" else "fetched_bad"
        return None
    if p[0] == "open" and p[2] == "w" and p[1].endswith("/slot") and p[1] != "/folder/slot":
        return "verified"
    if p[0] == "os.rename":
        return "dumped"
    if p[0] == "shutil.rmtree" and any(i and i[0] == "os.rename" for i in log):
        return "renamed"
    return None


ANSWER = {"FetchGood": "good", "FetchBad": "corrupt", "FetchFail": "URLError"}


def do_action(w, pending_ans, action, i):
    """execute one model action on the implementation: first step, then run on through the
    model-invisible boundaries"""
    tid = i - 1
    lc = w.loaders[tid]
    if action == "Crash":
        w.step(tid, crash=True)
        return
    if action in ANSWER:
        pending_ans[tid] = ANSWER[action]
    w.step(tid)
    guard = 0
    while not lc.done and impl_pc(lc) is None:
        w.step(tid)
        guard += 1
        if guard > 200:
            raise HarnessError("loader does not reach a model-visible boundary")


def replay_path(n, path):
    """path: list of (action, loader, expected model state).  Returns (fails, reached_ok)"""
    home = c19.fresh_home()
    cfg = {"n_retries": 1, "dim": True, "deia": False, "gzip": False}
    try:
        c19.prepare(home, "empty")
        pending_ans = {}
        w = LE.World([c19.make_call(home, cfg) for _ in range(n)], home, answer_fn=lambda lc, url: pending_ans.pop(lc.tid, "good"))
        try:
            for (action, i, st) in path:
                lc = w.loaders[i - 1]
                if lc.done or lc.killed:
                    return [fail("model-conformance", {"why": "model action on a finished loader", "action": "%s(%d)" % (action, i)}, {"harness": "model"})]
                do_action(w, pending_ans, action, i)
                pcs = [impl_pc(l) for l in w.loaders]
                slot = LE.slot_state(os.path.join(home, "folder", "slot"))
                slot = slot if isinstance(slot, str) else "corrupt"
                if pcs != st["pc"] or slot != st["slot"]:
                    return [fail("model-conformance", {"after": "%s(%d)" % (action, i), "implementation": {"pc": pcs, "slot": slot,
                                                                                                        "pending": [l.pending for l in w.loaders]},
                                                       "model": {"pc": st["pc"], "slot": st["slot"]}}, {"harness": "model", "action": action})]
            return []
        finally:
            w.close()
    finally:
        shutil.rmtree(home, ignore_errors=True)


@kind("model-edge")
def check_edge(case):
    return replay_path(case["n"], [(a, i, st) for (a, i, st) in case["path"]])


def _edge_task(item):
    n, path = item
    return replay_path(n, path)


def conformance(n, consts):
    """TLC the per-loader model, then replay every edge (shortest path to its source + the edge)."""
    st = engine.Stats()
    r = run_tlc("CacheLoader", dict(consts, N=n), dump=True)
    if not r["ok"]:
        st.add_failure({"clause": "model-invariant-violated", "case": {"kind": "model", "n": n}, "detail": {"tlc": r["out"]},
                        "key": {"harness": "model"}, "choices": None, "labels": None})
        return st, r, None
    nodes, edges, init = parse_dot(r["dot"])
    if len(nodes) != r["states"] or init is None:
        raise HarnessError("dot graph (%d nodes) does not match TLC's count (%d)" % (len(nodes), r["states"]))
    # shortest paths from init
    out = collections.defaultdict(list)
    for (s, d, a, i) in edges:
        out[s].append((d, a, i))
    pred = {init: None}
    q = collections.deque([init])
    while q:
        s = q.popleft()
        for (d, a, i) in out[s]:
            if d not in pred:
                pred[d] = (s, a, i)
                q.append(d)

    def path_to(s):
        p = []
        while pred[s] is not None:
            ps, a, i = pred[s]
            p.append((a, i, nodes[s]))
            s = ps
        return list(reversed(p))
    tasks = []
    for (s, d, a, i) in edges:
        tasks.append((n, path_to(s) + [(a, i, nodes[d])]))
    res = engine.pmap("model-conf-%d" % n, _edge_task, tasks)
    for (nn, path), fails in zip(tasks, res):
        st.executions += 1
        st.transitions += 1
        st.calls += n
        for f in fails:
            case = {"kind": "model-edge", "n": nn, "path": [[a, i, s_] for (a, i, s_) in path]}
            st.add_failure({"clause": f["clause"], "case": engine.jsonable(case), "detail": engine.jsonable(f.get("detail")),
                            "key": engine.jsonable(f.get("key")), "choices": None, "labels": None})
    st.states = len(nodes)
    st.cases = st.executions
    for (s, d, a, i) in edges[:: max(1, len(edges) // 3)][:2]:
        st.samples.append({"model_edge": "%s(%d)" % (a, i), "from": nodes[s], "to": nodes[d], "replayed_path_len": len(path_to(s)) + 1})
    for nd in nodes.values():
        st.outcomes.add(engine.sig_hash((tuple(nd["pc"]), nd["slot"], nd["faults"], nd["crashes"])))
        if nd["faults"] or nd["crashes"] or len(set(nd["pc"])) > 1:
            st.nontrivial.add(engine.sig_hash((tuple(nd["pc"]), nd["slot"], nd["faults"], nd["crashes"])))
    st.counters["model_N%d_states" % n] = len(nodes)
    st.counters["model_N%d_edges_replayed" % n] = len(edges)
    return st, r, nodes


def projection_check(n, consts, nodes):
    """reachable states of the counter abstraction == counting projection of the per-loader model"""
    r = run_tlc("CacheLoaderCounts", dict(consts, N=n), dump=True)
    st = engine.Stats()
    if not r["ok"]:
        st.add_failure({"clause": "model-invariant-violated", "case": {"kind": "model-counts", "n": n}, "detail": {"tlc": r["out"]},
                        "key": {"harness": "model"}, "choices": None, "labels": None})
        return st
    counts = set()
    for line in r["dot"].splitlines():
        m = re.match(r'^(-?\d+) \[label="((?:[^"\\]|\\.)*)"', line)
        if m:
            lab = m.group(2).replace('\\"', '"')
            cnt = tuple(sorted((k, int(v)) for k, v in re.findall(r'(\w+) \|-> (\d+)', lab) if int(v) > 0))
            counts.add((cnt, re.search(r'slot = "(\w+)"', lab).group(1), int(re.search(r"faults = (\d+)", lab).group(1)),
                        int(re.search(r"crashes = (\d+)", lab).group(1))))
    proj = set()
    for nd in nodes.values():
        c = collections.Counter(nd["pc"])
        proj.add((tuple(sorted(c.items())), nd["slot"], nd["faults"], nd["crashes"]))
    st.states = len(counts)
    st.transitions = max(1, r["generated"])
    st.executions = 1
    st.cases = 1
    if counts != proj:
        raise HarnessError("counter abstraction (N=%d) is not the projection of the per-loader model: %d vs %d states, e.g. %r"
                           % (n, len(counts), len(proj), list(counts ^ proj)[:2]))
    st.counters["model_counts_N%d_states_equal_projection" % n] = len(counts)
    return st


def big_model(n, consts, workers):
    st = engine.Stats()
    t0 = time.time()
    r = run_tlc("CacheLoaderCounts", dict(consts, N=n), workers=workers, timeout=7200)
    st.states = r["states"]
    st.transitions = r["generated"]
    st.executions = 0
    st.max_depth = r["depth"]
    st.counters["model_counts_N%d_states" % n] = r["states"]
    st.counters["model_counts_N%d_transitions" % n] = r["generated"]
    st.counters["model_counts_N%d_tlc_seconds" % n] = int(time.time() - t0)
    if not r["ok"]:
        st.add_failure({"clause": "model-invariant-violated", "case": {"kind": "model-counts", "n": n, "consts": consts},
                        "detail": {"tlc": r["out"]}, "key": {"harness": "model"}, "choices": None, "labels": None})
    st.samples.append({"tlc_model": "CacheLoaderCounts", "N": n, "constants": consts, "distinct_states": r["states"], "depth": r["depth"]})
    return st


def harnesses(tier, seed):
    quick = tier == "quick"
    consts = {"MaxCrashes": 1, "MaxFaults": 1}

    def conf():
        st, r, nodes = conformance(2, consts)
        if nodes is not None:
            st.merge(projection_check(2, consts, nodes))
        if not quick:
            st3, r3, nodes3 = conformance(3, consts)
            st.merge(st3)
            if nodes3 is not None:
                st.merge(projection_check(3, consts, nodes3))
        return st

    def big():
        st = engine.Stats()
        for n in ([16] if quick else [4, 5, 6, 8, 12, 16]):
            st.merge(big_model(n, consts if quick else {"MaxCrashes": 2, "MaxFaults": 2}, engine.n_workers()))
        return st
    return [{"name": "model-conformance (every TLC edge replayed on the code)", "run": conf,
             "bound_text": "per-loader model N=2%s, <=1 crash, <=1 fault" % ("" if quick else ",3")},
            {"name": "model-up-to-16-loaders (TLC, counter abstraction)", "run": big,
             "bound_text": "N in %s" % ([16] if quick else [4, 5, 6, 8, 12, 16])}]
