"""C10 - nearest-sample search returns the defined neighbour for every query (E1)."""
import itertools
import math
from fractions import Fraction as F

import numpy as np

from mc import alphabets as A
from mc.refmodel import search as R
from mc.harness import kind as kind_
from mc import harness as _H

PROPERTY = "C10"
RULE = ("every strictly increasing array over {0..7} and over {-3..4} (bounded length) x every non-decreasing query multiset over the "
        "half-integer lattice {-1..8} x fill on/off x list/ndarray input x 3 searches + dispatcher; float slice: "
        "affine images with queries at, +-1 ulp around, between and beyond the elements. An outcome signature is "
        "(function, len(x), returned index tuple); non-trivial = the returned indices are not all the same index "
        "or a not-valid marker (-1 / len(x)) occurs")
ASSUMPTIONS = ["'closest': the nearest element by exact distance is demanded; where comparing the two correctly rounded "
               "floating-point distances gives the other neighbour (possible only when the exact distances differ by less "
               "than the rounding of the subtractions) that neighbour is accepted as well; never on the dyadic lattice",
               "inputs outside the alphabets (NaN, unsorted queries, huge arrays) are not covered"]
ANCHORS = {"sorted_array_utils.py": [(347, 378), (410, 444), (471, 511), (543, 549)]}
FORMS_HARNESSES = "all"
EXPLANATION = "exhaustive enumeration of the bounded input lattice against the bisect definition"


def _fmt_sizes(sz):
    d = [v for v in sz if v <= 200]
    return "1..%d + %s" % (max(d), [v for v in sz if v > 200]) if d and d == list(range(d[0], d[-1] + 1)) else str(sz)


def bounds(tier, seed):
    return {"array_len": (1, 5 if tier == "quick" else 6), "queries": (1, 3 if tier == "quick" else 4),
            "float_slices": 5, "integer_offsets": [0, -3], "float_query_multiset": 2 if tier == "quick" else 3}


def _impl():
    import traffic_weaver.sorted_array_utils as S
    return S


def check_search_case(case):
    """Plain re-execution of one case; returns list of failures."""
    S = _impl()
    x = case["x"]
    q = case["q"]
    fill = case["fill"]
    xs = np.array(x, dtype=float) if case["as_array"] else [float(v) for v in x]
    qs = np.array(q, dtype=float) if case["as_array"] else [float(v) for v in q]
    xf = [float(v) for v in x]
    qf = [float(v) for v in q]
    fails = []
    fn = case["fn"]
    if fn == "lower":
        got = S.find_closest_lower_equal_element_indices_to_values(xs, qs, fill_not_valid=fill)
        exp = [[R.lower(xf, v, fill)] for v in qf]
    elif fn == "higher":
        got = S.find_closest_higher_equal_element_indices_to_values(xs, qs, fill_not_valid=fill)
        exp = [[R.higher(xf, v, fill)] for v in qf]
    elif fn == "closest":
        got = S.find_closest_lower_or_higher_element_indices_to_values(xs, qs)
        exp = []
        for v in qf:
            i, alt = R.closest(xf, v)
            exp.append([i] if (alt is None or case.get("exact")) else [i, alt])
    else:  # dispatcher
        strat = fn.split(":")[1]
        got = S.find_closest_element_indices_to_values(xs, qs, strategy=strat, fill_not_valid=fill)
        if strat == "lower":
            exp = [[R.lower(xf, v, fill)] for v in qf]
        elif strat == "higher":
            exp = [[R.higher(xf, v, fill)] for v in qf]
        else:
            exp = []
            for v in qf:
                i, alt = R.closest(xf, v)
                exp.append([i] if (alt is None or case.get("exact")) else [i, alt])
    got = [int(g) for g in got]
    if len(got) != len(exp) or any(g not in e for g, e in zip(got, exp)):
        fails.append({"clause": "index", "detail": {"expected": exp, "observed": got},
                      "key": {"fn": fn.split(":")[0], "fill": fill}})
    return fails


def replay(case):
    if case.get("kind") == "search-sequence":
        return check_search_sequence(case)
    if case.get("kind") == "search-long":
        return check_search_long(case)
    return check_search_case(case)


FNS = ["lower", "higher", "closest", "disp:lower", "disp:higher", "disp:closest"]


def _fast(S, fn, xs, qs, fill):
    if fn == "lower":
        return S.find_closest_lower_equal_element_indices_to_values(xs, qs, fill_not_valid=fill)
    if fn == "higher":
        return S.find_closest_higher_equal_element_indices_to_values(xs, qs, fill_not_valid=fill)
    if fn == "closest":
        return S.find_closest_lower_or_higher_element_indices_to_values(xs, qs)
    return S.find_closest_element_indices_to_values(xs, qs, strategy=fn.split(":")[1], fill_not_valid=fill)


def _expected(fn, xf, qf, fill):
    k = fn.split(":")[-1]
    if k == "lower":
        return [R.lower(xf, v, fill) for v in qf]
    if k == "higher":
        return [R.higher(xf, v, fill) for v in qf]
    return [R.closest(xf, v)[0] for v in qf]


def make_lattice_body(arrays, queries):
    qf_all = [[float(v) for v in q] for q in queries]

    def body(ctx):
        S = _impl()
        x = ctx.choose(arrays, "x")
        fill = ctx.choose([True, False], "fill")
        as_array = ctx.choose([True, False], "as_array")
        off = ctx.choose([0.0, -3.0], "offset")      # -3: zero and negative values inside the array
        xf = [float(v) + off for v in x]
        xs = np.array(xf) if as_array else xf
        n = 0
        for q0 in qf_all:
            qf = [v + off for v in q0] if off else q0
            qs = np.array(qf) if as_array else qf
            for fn in FNS:
                if fn.startswith("disp") and (not as_array):
                    continue  # dispatcher exercised on array input only (same code underneath)
                if not fill and fn in ("closest", "disp:closest"):
                    continue  # fill flag is irrelevant for 'closest'
                got = [int(g) for g in _fast(S, fn, xs, qs, fill)]
                n += 1
                exp = _expected(fn, xf, qf, fill)
                if got != exp:
                    case = {"kind": "search", "fn": fn, "x": xf, "q": qf, "fill": fill, "as_array": as_array,
                            "exact": True}
                    for f in check_search_case(case):
                        ctx.fail(f["clause"], case, f["detail"], f["key"])
                ctx.outcome((fn.split(":")[-1], len(xf), tuple(got)),
                            nontrivial=(len(set(got)) > 1 or -1 in got or len(xf) in got))
        ctx.call(n)
        ctx.bulk(n)
        if len(x) == 3 and fill:
            ctx.sample({"x": xf, "q": qf_all[len(qf_all) // 2], "fill": fill})
    return body


def _ulp_queries(xf):
    pts = set()
    for v in xf:
        pts.update([v, math.nextafter(v, -math.inf), math.nextafter(v, math.inf)])
    for a, b in zip(xf[:-1], xf[1:]):
        m = (a + b) / 2
        pts.update([m, math.nextafter(m, -math.inf), math.nextafter(m, math.inf)])
    span = (xf[-1] - xf[0]) or 1.0
    pts.update([xf[0] - span, xf[-1] + span])
    return sorted(pts)


IMAGES = [("x-2", lambda v: v - 2.0), ("x/3", lambda v: v / 3.0), ("0.1x+0.3", lambda v: 0.1 * v + 0.3), ("1e-8x", lambda v: 1e-8 * v),
          ("1e8+x/2", lambda v: 1e8 + v / 2.0)]


def make_float_body(arrays, maxq):
    def body(ctx):
        S = _impl()
        x = ctx.choose(arrays, "x")
        name, img = ctx.choose(IMAGES, "image")
        fill = ctx.choose([True, False], "fill")
        xf = [img(float(v)) for v in x]
        pair = ctx.choose(["none", "first", "last"], "adjacent-floats")
        if pair != "none":
            # two elements one ulp apart (the array is still strictly increasing)
            j = 0 if pair == "first" else len(xf) - 1
            xf = sorted(set(xf + [math.nextafter(xf[j], math.inf)]))
        if any(b <= a for a, b in zip(xf[:-1], xf[1:])):
            ctx.note("filtered_out")
            return
        xs = np.array(xf)
        pts = _ulp_queries(xf)
        n = 0
        for k in range(1, maxq + 1):
            for qf in itertools.combinations_with_replacement(pts, k):
                qf = list(qf)
                for fn in ("lower", "higher", "closest"):
                    if not fill and fn == "closest":
                        continue
                    got = [int(g) for g in _fast(S, fn, xs, np.array(qf), fill)]
                    n += 1
                    if fn == "closest":
                        ok = True
                        for g, v in zip(got, qf):
                            i, alt = R.closest(xf, v)
                            if g != i:
                                if alt is not None and g == alt:
                                    ctx.note("boundary_ambiguous")
                                else:
                                    ok = False
                    else:
                        ok = got == _expected(fn, xf, qf, fill)
                    if not ok:
                        case = {"kind": "search", "fn": fn, "x": xf, "q": qf, "fill": fill, "as_array": True}
                        for f in check_search_case(case):
                            ctx.fail(f["clause"], case, f["detail"], f["key"])
                    ctx.outcome((fn, name, len(xf), tuple(got)), nontrivial=len(set(got)) > 1)
        ctx.call(n)
        ctx.bulk(n)
    return body


@kind_("search-sequence")
def check_search_sequence(case):
    """the searches are functions of the array CONTENT at call time: search, edit the same ndarray
    object in place (still strictly increasing), search again"""
    S = _impl()
    fails = []
    x = np.array(case["x"], dtype=float)
    q = np.array(case["q"], dtype=float)
    for step, (pos, val) in enumerate([(None, None)] + [tuple(e) for e in case["edits"]]):
        if pos is not None:
            x[pos] = val
        xf = [float(v) for v in x]
        for fn in ("lower", "higher", "closest", "disp:closest"):
            res = _fast(S, fn, x, q, True)
            got = [int(g) for g in res]
            exp = _expected(fn, xf, [float(v) for v in q], True)
            if got != exp:
                fails.append({"clause": "index-after-in-place-edit", "detail": {"step": step, "fn": fn, "x": xf, "expected": exp, "observed": got},
                              "key": {"fn": fn.split(":")[0], "sequence": True}})
                return fails
            # the caller owns the index array it was handed: scribble on it, then ask again with the same arguments
            try:
                res[...] = -7
            except Exception:
                pass
            got2 = [int(g) for g in _fast(S, fn, x, q, True)]
            if got2 != exp:
                fails.append({"clause": "index-after-caller-edited-previous-result", "detail": {"step": step, "fn": fn, "expected": exp, "observed": got2},
                              "key": {"fn": fn.split(":")[0], "sequence": True}})
                return fails
    return fails


def make_long_body(size_list, pairs_dense_to):
    """arrays far longer than the lattice ones: every size of the size alphabet (dense small range, powers of two + 1, the
    neighbourhood of every integer constant in the code under test), three exactly representable grids; queries: every
    element / midpoint / beyond-the-ends value ALONE (the scan starts at 0 and has to travel), every PAIR of them on the
    interesting indices (the second query starts where the first one ended), and all of them in one call"""
    def body(ctx):
        S = _impl()
        m = ctx.choose(size_list, "len")
        gk = ctx.choose(["uniform", "offset", "gaps"], "grid")
        fill = ctx.choose([True, False], "fill")
        xf = A.long_grid(m, gk)
        xs = np.array(xf)
        idx = A.interesting_indices(m, dense_to=pairs_dense_to, subpath="sorted_array_utils")
        pts = {xf[0] - 1.0, xf[-1] + 1.0}
        for i in idx:
            pts.add(xf[i])
            if i + 1 < m:
                pts.add((xf[i] + xf[i + 1]) / 2)
                pts.add(xf[i] + (xf[i + 1] - xf[i]) / 4)
        pts = sorted(pts)
        qsets = [[v] for v in pts] + [pts]
        if len(pts) <= 130:
            qsets += [[a, b] for a, b in itertools.combinations(pts, 2)]
        else:
            sub = pts[::max(1, len(pts) // 60)]
            qsets += [[a, b] for a, b in itertools.combinations(sub, 2)]
        n = 0
        for qf in qsets:
            qa = np.array(qf)
            for fn in ("lower", "higher", "closest"):
                if not fill and fn == "closest":
                    continue
                got = [int(g) for g in _fast(S, fn, xs, qa, fill)]
                n += 1
                exp = _expected(fn, xf, qf, fill)
                if got != exp:
                    case = {"kind": "search", "fn": fn, "x": xf, "q": qf, "fill": fill, "as_array": True, "exact": True}
                    for f in check_search_case(case):
                        f["detail"] = {"len": m, "grid": gk, "q": qf, "expected": _expected(fn, xf, qf, fill), "observed": got}
                        ctx.fail(f["clause"], {"kind": "search-long", "fn": fn, "len": m, "grid": gk, "q": qf, "fill": fill}, f["detail"], dict(f["key"], long=True))
        ctx.call(n)
        ctx.bulk(n)
        ctx.outcome(("long", m, gk, fill), nontrivial=m > 1)
    return body


@kind_("search-long")
def check_search_long(case):
    xf = A.long_grid(case["len"], case["grid"])
    fails = check_search_case({"kind": "search", "fn": case["fn"], "x": xf, "q": case["q"], "fill": case["fill"], "as_array": True, "exact": True})
    for f in fails:
        f["detail"] = {"len": case["len"], "grid": case["grid"], "q": case["q"]}
        f["key"] = dict(f["key"], long=True)
    return fails


def harnesses(tier, seed):
    quick = tier == "quick"
    arrays = A.inc_arrays(7, 1, 5 if quick else 6)
    lat = A.half_lattice(-1, 8)
    queries = A.multisets(lat, 1, 3 if quick else 4)
    def seq_body(ctx):
        x = ctx.choose([a for a in A.inc_arrays(9, 3, 5) if all(b - a_ >= 2 for a_, b in zip(a[:-1], a[1:]))], "x")
        pos = ctx.choose(list(range(1, len(x) - 1)), "edit-position")
        d1 = ctx.choose([-1.0, 0.5, 1.0], "first-edit")
        d2 = ctx.choose([-0.5, 1.0], "second-edit")
        xs = [float(v) for v in x]
        e1 = xs[pos] + d1
        e2 = min(max(e1 + d2, xs[pos - 1] + 0.25), xs[pos + 1] - 0.25)
        case = {"kind": "search-sequence", "x": xs, "q": [v for v in [xs[0] - 1, xs[pos] - 0.75, xs[pos], xs[pos] + 0.75, xs[-1] + 1]],
                "edits": [[pos, e1], [pos, e2]]}
        case["q"] = sorted(case["q"])
        fails = check_search_sequence(case)
        ctx.call(9)
        for f in fails:
            ctx.fail(f["clause"], case, f["detail"], f["key"])
        ctx.outcome(("seq", tuple(xs), pos, d1, d2))

    hs = [{"name": "same-array-edited-in-place", "body": seq_body},
          {"name": "lattice", "body": make_lattice_body(arrays, queries),
           "bound_text": "arrays<=%d over {0..7}, multisets<=%d over half-lattice" % (5 if quick else 6, 3 if quick else 4)}]
    long_sizes = A.sizes(36 if quick else 72, 17000 if quick else 70000, subpath="sorted_array_utils")
    hs.append({"name": "long-arrays", "body": make_long_body(long_sizes, 36 if quick else 48),
               "bound_text": "sizes %s (dense range, 2^k+1, around every integer constant of the code); single queries, query pairs, full list" % _fmt_sizes(long_sizes)})
    # extension slice (quick: one of 2 array families selected by seed; thorough: both)
    fam = [A.inc_arrays(5, 1, 4), [tuple(2 * v + 1 for v in a) for a in A.inc_arrays(4, 2, 4)]]
    sel = [fam[seed % 2]] if quick else fam
    for i, f in enumerate(sel):
        hs.append({"name": "float-ulp-%d" % (seed % 2 if quick else i), "body": make_float_body(f, 2 if quick else 3),
                   "bound_text": "4 affine images, queries at/ulp-around/between/beyond elements"})
    return hs
