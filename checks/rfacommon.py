"""Shared pieces for the recreate-from-average checks (C02, C04-C07)."""
from fractions import Fraction as F

import numpy as np

STRATS = ["pconst", "spline", "linfix", "linada", "expfix", "expada"]
WINDOW = ["linfix", "linada", "expfix", "expada"]
ALPHAS = [F(1, 4), F(3, 8), F(1, 2), F(3, 4), F(1)]
BETAS = [F(0), F(1, 4), F(1, 2), F(1)]
EXPS = [F(1, 10), F(1, 2), 1, 2, 3, 4]
SMOOTHS = [F(1, 2), 1, 3]
NS_CORE = [2, 3, 4, 5, 8, 16]


def cls(strategy):
    import traffic_weaver.rfa as R
    return {"pconst": R.PiecewiseConstantRFA, "spline": R.CubicSplineRFA, "linfix": R.LinearFixedRFA,
            "linada": R.LinearAdaptiveRFA, "expfix": R.ExpFixedRFA, "expada": R.ExpAdaptiveRFA,
            "function": R.FunctionRFA}[strategy]


def fnum(v):
    return v if isinstance(v, int) else float(v)


def kwargs_for(strategy, p):
    """p: dict with optional alpha, a, beta, exp, smooth -> constructor kwargs (floats)."""
    kw = {}
    if strategy in WINDOW:
        if p.get("a") is not None:
            kw["a"] = p["a"]
        elif p.get("alpha") is not None:
            kw["alpha"] = float(p["alpha"])
    if strategy in ("expfix", "expada"):
        if p.get("beta") is not None:
            kw["beta"] = float(p["beta"])
        if p.get("exp") is not None:
            kw["exp"] = fnum(p["exp"])
    if strategy in ("linada", "expada") and p.get("smooth") is not None:
        kw["adaptive_smooth"] = fnum(p["smooth"])
    return kw


def run(strategy, x, y, n, p, as_list=False, dtype=float):
    C = cls(strategy)
    if as_list:
        xs, ys = list(x), list(y)
    else:
        xs, ys = np.array(x, dtype=dtype), np.array(y, dtype=dtype)
    return C(xs, ys, n, **kwargs_for(strategy, p)).rfa()


def param_sets(strategy, n, alphas=ALPHAS, betas=BETAS, exps=EXPS, smooths=SMOOTHS, explicit_a=True):
    """All parameter dicts of a strategy for oversampling factor n over the given alphabets."""
    if strategy not in WINDOW:
        return [{}]
    win = [{"alpha": al} for al in alphas]
    if explicit_a:
        win += [{"a": a} for a in sorted(set([0, 1, 2, 3, n - 1, n])) if 0 <= a <= n]
    out = []
    for w in win:
        if strategy == "linfix":
            out.append(dict(w))
        elif strategy == "linada":
            out.extend(dict(w, smooth=s) for s in smooths)
        elif strategy == "expfix":
            out.extend(dict(w, beta=b, exp=e) for b in betas for e in exps)
        else:
            out.extend(dict(w, beta=b, exp=e, smooth=s) for b in betas for e in exps for s in smooths)
    return out


def pkey(p):
    return {k: (float(v) if isinstance(v, F) else v) for k, v in sorted(p.items())}


def eff_a(n, p):
    from mc.refmodel.rfa import effective_a
    return effective_a(n, alpha=p.get("alpha", 1), a=p.get("a"))
