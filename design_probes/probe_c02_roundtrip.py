import numpy as np, itertools, warnings
np.in1d=np.isin
from traffic_weaver import Weaver
from traffic_weaver.rfa import *
from traffic_weaver.process import average
from traffic_weaver.sorted_array_utils import integral
from traffic_weaver.datasets import load_dataset
import traffic_weaver.datasets._sandvine as S, inspect
warnings.simplefilter('error')
bad={}; cnt=0
def run(x,y,C,n,kw,tm,app):
    global cnt; cnt+=1
    wv=Weaver(np.array(x,float),np.array(y,float))
    if app is not None: wv.append_one_sample(make_periodic=app)
    rx0,ry0=[a.copy() for a in wv.get()]
    try:
        wv.recreate_from_average(n,rfa_class=C,**kw).integral_match(target_function_integral_method=tm)
    except Exception as e:
        bad.setdefault((C.__name__,'EXC',type(e).__name__,str(e)[:50]),[]).append((x,y,n,kw,tm,app)); return
    fx,fy=wv.get(); fx=np.asarray(fx); fy=np.asarray(fy,float)
    it=integral(fx,fy,tm)
    m=len(rx0)
    for k in range(m-1):
        mean=it[k*n:(k+1)*n].sum()/(rx0[k+1]-rx0[k])
        if abs(mean-ry0[k])>1e-9*(1+abs(ry0[k])):
            bad.setdefault((C.__name__,tm,'mean'),[]).append((x,y,n,kw,app,k,mean,ry0[k])); break
    if tm=='rectangle':
        ax,ay=average(fx,fy,n)
        if not np.array_equal(ax,rx0): bad.setdefault((C.__name__,'avg-x'),[]).append((x,y,n,kw,app))
        if np.max(np.abs(ay[:-1]-ry0[:-1]))>1e-9*(1+np.max(np.abs(ry0))): bad.setdefault((C.__name__,'avg-y'),[]).append((x,y,n,kw,app))
series=[]
for name,f in inspect.getmembers(S,inspect.isfunction):
    if name.startswith('load_sandvine'):
        d=f(); series.append((d[:,0].tolist(),d[:,1].tolist()))
series+= [([0,1,3,4,8],[1,5,2,2,7]),([0,1,2],[3,3,3]),([0,2],[1,4]),([0,1,2,3,4,5],[0,0,1,1,0,5])]
Cs={PiecewiseConstantRFA:[{}],CubicSplineRFA:[{}],LinearFixedRFA:[{},{'alpha':0.3},{'a':4}],LinearAdaptiveRFA:[{},{'alpha':0.5,'adaptive_smooth':2}],
    ExpFixedRFA:[{},{'alpha':0.7,'beta':0.9,'exp':0.5},{'beta':0,'exp':4}],ExpAdaptiveRFA:[{},{'alpha':0.6,'beta':1,'exp':3,'adaptive_smooth':0.5}]}
for x,y in series:
  for C,kws in Cs.items():
    for kw in kws:
      for n in (2,3,5,10,16,64):
        for tm in ('trapezoid','rectangle'):
          for app in (None,False,True):
            run(x,y,C,n,kw,tm,app)
print(cnt)
for k,v in bad.items(): print(k,len(v),v[0])
