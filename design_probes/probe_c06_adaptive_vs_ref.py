import numpy as np, itertools, warnings
from fractions import Fraction as F
from refrfa import ref_rfa
from traffic_weaver.rfa import *
K={'linada':LinearAdaptiveRFA,'expada':ExpAdaptiveRFA}
bad={};cnt=0;ambc=0
for kind,C in K.items():
  for X in ([0,1,2,3,4],[0,1,3,4,8],[0,2,3,7,8]):
    for Y in itertools.product([0,1,2,5],repeat=5):
      for n in (2,3,4,5,8):
        for a in sorted(set([2,3,n,max(2,n//2)])):
          if a>n: continue
          for beta,e in ([(None,None)] if kind.startswith('lin') else [(F(1,2),2),(F(0),3),(F(1),1),(F(1,3),0.5)]):
            cnt+=1
            kw={'a':a}
            if beta is not None: kw.update(beta=float(beta),exp=e)
            rx,ry=C(X,list(Y),n,**kw).rfa()
            amb=[]
            args=([F(v) for v in X],[F(v) for v in Y],n,kind,a,beta if beta is not None else F(1,2),e if e is not None else 2)
            ref=ref_rfa(*args,amb=amb)
            ok=max(abs(float(r)-float(v)) for r,v in zip(ref,ry))<=1e-9
            if not ok and amb:
                ambc+=1
                for r_ in range(1,len(amb)+1):
                    for pk in itertools.combinations(amb,r_):
                        ref=ref_rfa(*args,pick=set(pk))
                        if max(abs(float(r)-float(v)) for r,v in zip(ref,ry))<=1e-9: ok=True;break
                    if ok:break
            if not ok: bad.setdefault(kind,[]).append((X,Y,n,kw,amb))
print(cnt,ambc)
for k,v in bad.items(): print(k,len(v)); print(v[0])
