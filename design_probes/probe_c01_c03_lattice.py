import numpy as np, itertools, warnings, bisect
np.in1d=np.isin
from traffic_weaver.match import integral_matching_reference_stretch as imrs
from fractions import Fraction as F
def integ(x,y,m):
    return [ (y[i] if m=='rectangle' else (y[i]+y[i+1])/2)*(x[i+1]-x[i]) for i in range(len(x)-1)]
def sel(x,q,strategy):
    if strategy=='lower':
        i=bisect.bisect_right(x,q)-1; return max(i,0)
    if strategy=='higher':
        i=bisect.bisect_left(x,q); return min(i,len(x)-1)
    best=min(range(len(x)),key=lambda i:(abs(x[i]-q),i)); return best
cnt=0; bad={}
xl=[0,1,2,3,4,5,6,7,8]
import random
for k in (5,6,7):
  for x in itertools.combinations(xl,k):
    if x[0]!=0: continue
    # references: 3 positions on half lattice
    for xr in itertools.combinations([v/2 for v in range(-1,18)],3):
      for strat in ('closest','lower','higher'):
        idx=[sel(x,q,strat) for q in xr]
        if len(set(idx))<3 or any(b-a<2 for a,b in zip(idx,idx[1:])): continue
        for yi,(y,yr) in enumerate([([1,3,0,2,5,1,4,2,2][:k],[2,5,1]),([0,0,0,0,1,0,0,0,0][:k],[1,0,3])]):
          for tm in ('trapezoid','rectangle'):
            for rm in ('trapezoid','rectangle'):
              for al in (0.5,1,2):
                cnt+=1
                with warnings.catch_warnings():
                    warnings.simplefilter('ignore')
                    z=imrs(np.array(x,float),np.array(y,float),np.array(xr),np.array(yr,float),fixed_points_finding_strategy=strat,target_function_integral_method=tm,reference_function_integral_method=rm,alpha=al)
                it=integ(x,list(z),tm); ir=integ(xr,yr,rm)
                for j in range(2):
                    got=sum(it[idx[j]:idx[j+1]])
                    if abs(got-ir[j])>1e-9:
                        bad.setdefault((strat,tm,rm),[]).append((x,xr,y,yr,al,got,ir[j])); break
                # C03
                out=[i for i in range(k) if i<idx[0] or i>idx[-1] or i in idx]
                if any(abs(z[i]-y[i])>1e-12 for i in out): bad.setdefault(('fixedmoved',strat),[]).append((x,xr,y,al,list(z)))
print(cnt); 
for k,v in bad.items(): print(k,len(v),v[0])
