# prototype reference model of the four window strategies, written from the class docstrings
from fractions import Fraction as F
import math
def lin(x,p0,p1):
    (x0,y0),(x1,y1)=p0,p1
    return y0+(y1-y0)*(x-x0)/(x1-x0)
def powf(t,e):
    return t**e if isinstance(e,int) else float(t)**e
def exp_(x,p0,p1,e):
    (x0,y0),(x1,y1)=p0,p1
    return y0+(y1-y0)*powf((x-x0)/(x1-x0),e)
def exp_xy(x,p0,p1,e):
    (x0,y0),(x1,y1)=p0,p1
    return y0+(y1-y0)*(1-powf((x1-x)/(x1-x0),e))
def exp_lin(x,p0,p1,e):
    (x0,y0),(x1,y1)=p0,p1
    t=(x-x0)/(x1-x0)
    return lin(x,p0,p1)*t+exp_(x,p0,p1,e)*(1-t)
def lin_exp_xy(x,p0,p1,e):
    (x0,y0),(x1,y1)=p0,p1
    t=(x-x0)/(x1-x0)
    return exp_xy(x,p0,p1,e)*t+lin(x,p0,p1)*(1-t)
def windows_fixed(m,a):
    return [a//2]*(m+1),[a//2]*(m+1)
def windows_adaptive(Y,a,smooth=1):
    # Y: extended averages Y[-1..m] as list index k+1 ; returns a_l,a_r for intervals -1..m-1(+virtual)
    m=len(Y)-2
    al={-1:1,m-1+1:1}; ar={-1:1,m:1}
    al={}; ar={}
    al[-1]=ar[-1]=1; al[m]=ar[m]=1   # hmm virtual intervals
    return al,ar
def ref_rfa(X,Y,n,kind,a,beta=F(1,2),e=2,smooth=1,pick=None,amb=None):
    """X,Y lists of Fractions (m points). returns list of (m-1)*n+1 values. kind in linfix, linada, expfix, expada"""
    m=len(X)
    # intervals k=0..m-2 real with average Y[k]; neighbour averages: left of 0 is Y[0]; right of m-2 is Y[m-1]; interval m-1 virtual avg Y[m-1], its right neighbour Y[m-1]
    avg=lambda k: Y[min(max(k,0),m-1)]
    # abscissae of interval k sample i (k may be -1 or m-1 virtual): virtual widths mirror first/last real interval
    def xs(k,i):
        if k<0: w=X[1]-X[0]; return X[0]+k*w+F(i,n)*w   # only k=-1
        if k>=m-1:
            w=X[m-1]-X[m-2]; return X[m-1]+(k-(m-1))*w+F(i,n)*w
        return X[k]+F(i,n)*(X[k+1]-X[k])
    # windows per interval k in -1..m-1
    AL={};AR={}
    for k in range(-1,m):
        if kind in('linfix','expfix'):
            AL[k]=AR[k]=a//2
        else:
            if k==-1 or k==m-1: AL[k]=AR[k]=1; continue
            nom=abs(avg(k+1)-avg(k)); den=abs(avg(k)-avg(k-1))
            if nom==0 and den==0: AL[k]=AR[k]=0
            elif nom==0: AL[k]=a//2; AR[k]=0
            elif den==0: AL[k]=0; AR[k]=a//2
            else:
                g=F(nom)/F(den)
                if smooth!=1: g=float(g)**smooth
                l=g*a/(1+g); r=a/(1+g)
                for nm,v,D in (('l',l,AL),('r',r,AR)):
                    v=min(max(v,1),a); j=int(v)
                    if isinstance(v,F) and v==j and j>=2:
                        if amb is not None: amb.append((k,nm))
                        if pick and (k,nm) in pick: j=j-1
                    D[k]=j
    def border(k):  # value at X_k between interval k-1 and k
        if AR[k-1]==0 and AL[k]==0: return avg(k-1)   # no transition (then avg(k-1)==avg(k) in tie cases)
        return lin(xs(k,0),(xs(k-1,n-AR[k-1]),avg(k-1)),(xs(k,AL[k]),avg(k)))
    out=[]
    for k in range(m-1):
        y0=avg(k); al=AL[k]; ar=AR[k]; z0=border(k); z1=border(k+1)
        if kind.startswith('exp'):
            bl=int(beta*al); br=int(beta*ar)
            zlb=lin(xs(k,bl),(xs(k,0),z0),(xs(k,al),y0)) if al>0 else z0
            zrb=lin(xs(k,n-br),(xs(k,n-ar),y0),(xs(k,n),z1)) if ar>0 else z1
        for i in range(n):
            x=xs(k,i)
            if i<al:
                if kind.startswith('lin'): v=lin(x,(xs(k,0),z0),(xs(k,al),y0))
                elif i<bl: v=lin(x,(xs(k,0),z0),(xs(k,bl),zlb))
                else: v=lin_exp_xy(x,(xs(k,bl),zlb),(xs(k,al),y0),e)
            elif i>n-ar:
                if kind.startswith('lin'): v=lin(x,(xs(k,n-ar),y0),(xs(k,n),z1))
                elif i<n-br: v=exp_lin(x,(xs(k,n-ar),y0),(xs(k,n-br),zrb),e)
                else: v=lin(x,(xs(k,n-br),zrb),(xs(k,n),z1))
            else: v=y0
            out.append(v)
    # last sample
    if kind.startswith('lin'): out.append(border(m-1))
    else: out.append(Y[m-1])
    return out
