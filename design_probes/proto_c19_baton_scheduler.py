# feasibility prototype: baton scheduler over audit events for N loader threads + fork/_exit crash
import sys, os, threading, hashlib, pickle, builtins, shutil, tempfile, time, io
import numpy as np
import urllib.request, urllib.error
import traffic_weaver.datasets._base as B

SCRATCH = tempfile.mkdtemp(prefix='twv-')
payload = b"0,1\n1,2\n2,5\n"
good = np.loadtxt(io.BytesIO(payload), delimiter=',')
rem = B.RemoteFileMetadata('f.csv', 'http://x/1', hashlib.sha256(payload).hexdigest())

class Sched:
    def __init__(self): self.tls = threading.local(); self.lock = threading.Lock()
    def register(self, tid):
        self.tls.tid = tid
sched = Sched()
threads = {}   # tid -> dict(go=Semaphore, back=Semaphore, done, steps)
main_back = threading.Semaphore(0)

def yield_point(label):
    tid = getattr(sched.tls, 'tid', None)
    if tid is None: return
    t = threads[tid]
    if t.get('inhook'): return
    t['inhook'] = True
    t['steps'].append(label)
    main_back.release()          # hand baton to scheduler
    t['go'].acquire()            # wait to be scheduled
    t['inhook'] = False
    if t.get('kill'): raise SystemExit

def hook(ev, args):
    if ev in ('open','os.mkdir','os.rename','os.remove','os.rmdir','os.scandir','shutil.rmtree','tempfile.mkdtemp'):
        if args and isinstance(args[0], str) and not args[0].startswith(SCRATCH) and ev!='os.scandir' and ev!='os.remove': return
        yield_point((ev,) + tuple(str(a).replace(SCRATCH,'') for a in args[:2]))
sys.addaudithook(hook)

real_stat = os.stat
def stat_wrap(p, *a, **k):
    if isinstance(p, str) and p.startswith(SCRATCH): yield_point(('stat', p.replace(SCRATCH,'')))
    return real_stat(p, *a, **k)
os.stat = stat_wrap

def fake_urlretrieve(url, filename):
    with open(filename, 'wb') as f: f.write(payload)
B.urlretrieve = fake_urlretrieve
urllib.request.urlretrieve = fake_urlretrieve

def loader(tid, home, out):
    sched.register(tid)
    yield_point(('start',))
    try:
        out[tid] = ('ok', B.load_csv_dataset_from_remote(rem, 'slot', 'folder', data_home=home, delay=0))
    except SystemExit: out[tid] = ('killed',)
    except BaseException as e: out[tid] = ('exc', type(e).__name__, str(e)[:80])
    threads[tid]['done'] = True
    main_back.release()

def run(schedule, n=2):
    """schedule: list of tids to run at each step; after exhausted, run round-robin lowest tid."""
    home = tempfile.mkdtemp(dir=SCRATCH)
    out = {}
    threads.clear()
    for tid in range(n):
        threads[tid] = dict(go=threading.Semaphore(0), done=False, steps=[], inhook=False)
        th = threading.Thread(target=loader, args=(tid, home, out), daemon=True); threads[tid]['th'] = th
        th.start(); main_back.acquire()          # wait until it parks at 'start'
    trace = []; i = 0
    while True:
        enabled = [t for t in threads if not threads[t]['done']]
        if not enabled: break
        if i < len(schedule) and schedule[i] in enabled: tid = schedule[i]
        else: tid = enabled[0]
        i += 1
        trace.append((tid, len(enabled)))
        threads[tid]['go'].release(); main_back.acquire()
    for t in threads.values(): t['th'].join()
    return out, trace, home

t0 = time.time()
out, trace, home = run([], 2)
print('default schedule: steps', len(trace), {k: v[0] for k, v in out.items()}, 'slot ok', np.array_equal(pickle.load(open(home+'/folder/slot','rb')), good))
print('thread0 steps:'); [print('  ', s) for s in threads[0]['steps']]
# enumerate all interleavings with bounded preemption=1 crudely: alternate at each point
cnt = 0
base = [0]*len(trace)
nsteps0 = len(threads[0]['steps'])
for k in range(nsteps0+1):
    sch = [0]*k + [1]*60
    out, tr, home = run(sch, 2); cnt += 1
    ok = all(v[0]=='ok' and np.array_equal(v[1], good) for v in out.values())
    if not ok: print('BAD', k, out)
print('ran', cnt+1, 'executions in', round(time.time()-t0,2), 's')
shutil.rmtree(SCRATCH)
