------------------------------ MODULE CacheLoader ------------------------------
(* Protocol model of traffic_weaver.datasets._base.load_csv_dataset_from_remote for one cache slot
   and N concurrent loaders (download_if_missing = TRUE, download_even_if_available = FALSE,
   n_retries = 1, validate_checksum = TRUE).  Every action corresponds to a run of step boundaries
   of the implementation that ends just before the loader's next access to shared state; the
   binding is checked by replaying every edge of the N = 2 state graph against the real code
   (checks/c19_model.py).  The shared state is the cache slot only: temp directories are private. *)
EXTENDS Naturals, FiniteSets

CONSTANTS N,            \* number of loaders
          MaxCrashes,   \* at most this many loaders are killed
          MaxFaults     \* at most this many non-default network answers in total

Loaders == 1..N

VARIABLES pc,      \* pc[i] : control location of loader i
          slot,    \* "absent" | "good" | "corrupt"   (corrupt must be unreachable)
          crashes, faults

vars == <<pc, slot, crashes, faults>>

Locs == {"start", "net1", "net0", "fetched_good", "fetched_bad", "verified", "dumped", "renamed",
         "read", "ok", "failed", "crashed"}
Terminal == {"ok", "failed", "crashed"}

Init == /\ pc = [i \in Loaders |-> "start"]
        /\ slot = "absent"
        /\ crashes = 0
        /\ faults = 0

\* stat(slot): cached -> read it, else download
Check(i) == /\ pc[i] = "start"
            /\ pc' = [pc EXCEPT ![i] = IF slot = "absent" THEN "net1" ELSE "read"]
            /\ UNCHANGED <<slot, crashes, faults>>

\* one download attempt answered with the good payload
FetchGood(i) == /\ pc[i] \in {"net1", "net0"}
                /\ pc' = [pc EXCEPT ![i] = "fetched_good"]
                /\ UNCHANGED <<slot, crashes, faults>>

\* one download attempt answered with a corrupt / truncated payload (a fault)
FetchBad(i) == /\ pc[i] \in {"net1", "net0"}
               /\ faults < MaxFaults
               /\ faults' = faults + 1
               /\ pc' = [pc EXCEPT ![i] = "fetched_bad"]
               /\ UNCHANGED <<slot, crashes>>

\* one download attempt failing with URLError / TimeoutError (a fault): absorbed once, then propagated
FetchFail(i) == /\ pc[i] \in {"net1", "net0"}
                /\ faults < MaxFaults
                /\ faults' = faults + 1
                /\ pc' = [pc EXCEPT ![i] = IF pc[i] = "net1" THEN "net0" ELSE "failed"]
                /\ UNCHANGED <<slot, crashes>>

\* SHA-256 verification: a mismatch raises OSError, nothing is cached
Verify(i) == /\ pc[i] \in {"fetched_good", "fetched_bad"}
             /\ pc' = [pc EXCEPT ![i] = IF pc[i] = "fetched_good" THEN "verified" ELSE "failed"]
             /\ UNCHANGED <<slot, crashes, faults>>

\* parse + pickle into the private temp directory
Dump(i) == /\ pc[i] = "verified"
           /\ pc' = [pc EXCEPT ![i] = "dumped"]
           /\ UNCHANGED <<slot, crashes, faults>>

\* os.rename(tmp/slot, slot): the only write to shared state, atomic, complete file
Rename(i) == /\ pc[i] = "dumped"
             /\ slot' = "good"
             /\ pc' = [pc EXCEPT ![i] = "renamed"]
             /\ UNCHANGED <<crashes, faults>>

\* remove the temp directory, return the parsed data
Cleanup(i) == /\ pc[i] = "renamed"
              /\ pc' = [pc EXCEPT ![i] = "ok"]
              /\ UNCHANGED <<slot, crashes, faults>>

\* cache hit: unpickle the slot (must be complete)
Read(i) == /\ pc[i] = "read"
           /\ pc' = [pc EXCEPT ![i] = IF slot = "good" THEN "ok" ELSE "failed"]
           /\ UNCHANGED <<slot, crashes, faults>>

Crash(i) == /\ pc[i] \notin Terminal
            /\ crashes < MaxCrashes
            /\ crashes' = crashes + 1
            /\ pc' = [pc EXCEPT ![i] = "crashed"]
            /\ UNCHANGED <<slot, faults>>

Next == \E i \in Loaders : \/ Check(i) \/ FetchGood(i) \/ FetchBad(i) \/ FetchFail(i) \/ Verify(i)
                           \/ Dump(i) \/ Rename(i) \/ Cleanup(i) \/ Read(i) \/ Crash(i)

Spec == Init /\ [][Next]_vars

TypeOK == /\ pc \in [Loaders -> Locs]
          /\ slot \in {"absent", "good", "corrupt"}

\* the cache entry is absent or complete
SlotNeverCorrupt == slot # "corrupt"
\* a loader that found the slot and reads it never fails (the slot is never removed or torn)
ReadNeverFails == \A i \in Loaders : pc[i] = "read" => slot = "good"
\* once a loader has renamed, the slot stays good
RenamedImpliesGood == \A i \in Loaders : pc[i] \in {"renamed"} => slot = "good"
\* a loader fails only if it saw a fault itself (never because of another loader)
FailOnlyOnOwnFault == (faults = 0) => \A i \in Loaders : pc[i] # "failed"
\* success implies the slot is in place (a later offline load succeeds)
OkImpliesGood == \A i \in Loaders : pc[i] = "ok" => slot = "good"

Inv == TypeOK /\ SlotNeverCorrupt /\ ReadNeverFails /\ RenamedImpliesGood /\ FailOnlyOnOwnFault /\ OkImpliesGood
================================================================================
