CONSTANTS N = 2
          MaxCrashes = 1
          MaxFaults = 1
INIT Init
NEXT Next
INVARIANT Inv
