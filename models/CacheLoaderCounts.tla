--------------------------- MODULE CacheLoaderCounts ---------------------------
(* Counter abstraction of CacheLoader: loaders are interchangeable, so a state is the number of
   loaders at each control location plus the slot.  Same actions, same invariants; used for N up to 16.
   checks/c19_model.py verifies that for N = 2 and N = 3 its reachable states are exactly the
   projection (counting) of the reachable states of the per-loader model. *)
EXTENDS Naturals

CONSTANTS N, MaxCrashes, MaxFaults

VARIABLES cnt, slot, crashes, faults
vars == <<cnt, slot, crashes, faults>>

Locs == {"start", "net1", "net0", "fetched_good", "fetched_bad", "verified", "dumped", "renamed",
         "read", "ok", "failed", "crashed"}
Terminal == {"ok", "failed", "crashed"}

Move(a, b) == /\ cnt[a] > 0
              /\ cnt' = [cnt EXCEPT ![a] = cnt[a] - 1, ![b] = IF a = b THEN cnt[b] ELSE cnt[b] + 1]

Init == /\ cnt = [l \in Locs |-> IF l = "start" THEN N ELSE 0]
        /\ slot = "absent" /\ crashes = 0 /\ faults = 0

Check == /\ Move("start", IF slot = "absent" THEN "net1" ELSE "read")
         /\ UNCHANGED <<slot, crashes, faults>>
FetchGood == \E a \in {"net1", "net0"} : Move(a, "fetched_good") /\ UNCHANGED <<slot, crashes, faults>>
FetchBad == \E a \in {"net1", "net0"} : /\ faults < MaxFaults /\ faults' = faults + 1
                                         /\ Move(a, "fetched_bad") /\ UNCHANGED <<slot, crashes>>
FetchFail == /\ faults < MaxFaults /\ faults' = faults + 1
             /\ \/ Move("net1", "net0") \/ Move("net0", "failed")
             /\ UNCHANGED <<slot, crashes>>
Verify == (Move("fetched_good", "verified") \/ Move("fetched_bad", "failed")) /\ UNCHANGED <<slot, crashes, faults>>
Dump == Move("verified", "dumped") /\ UNCHANGED <<slot, crashes, faults>>
Rename == Move("dumped", "renamed") /\ slot' = "good" /\ UNCHANGED <<crashes, faults>>
Cleanup == Move("renamed", "ok") /\ UNCHANGED <<slot, crashes, faults>>
Read == Move("read", IF slot = "good" THEN "ok" ELSE "failed") /\ UNCHANGED <<slot, crashes, faults>>
Crash == /\ crashes < MaxCrashes /\ crashes' = crashes + 1
         /\ \E a \in Locs \ Terminal : Move(a, "crashed")
         /\ UNCHANGED <<slot, faults>>

Next == Check \/ FetchGood \/ FetchBad \/ FetchFail \/ Verify \/ Dump \/ Rename \/ Cleanup \/ Read \/ Crash
Spec == Init /\ [][Next]_vars

TypeOK == /\ cnt \in [Locs -> 0..N] /\ slot \in {"absent", "good", "corrupt"}
SlotNeverCorrupt == slot # "corrupt"
ReadNeverFails == cnt["read"] > 0 => slot = "good"
RenamedImpliesGood == cnt["renamed"] > 0 => slot = "good"
FailOnlyOnOwnFault == (faults = 0) => cnt["failed"] = 0
OkImpliesGood == cnt["ok"] > 0 => slot = "good"
\* every failure is paid for by a fault: failures never exceed faults
FailuresBoundedByFaults == cnt["failed"] <= faults
Inv == TypeOK /\ SlotNeverCorrupt /\ ReadNeverFails /\ RenamedImpliesGood /\ FailOnlyOnOwnFault /\ OkImpliesGood
       /\ FailuresBoundedByFaults
================================================================================
