CONSTANTS N = 16
          MaxCrashes = 2
          MaxFaults = 2
INIT Init
NEXT Next
INVARIANT Inv
