#!/bin/sh
# tools/import_refactors.sh C10 -> /tmp/w5_C10/_out/refactorN.diff -> refactors/C10-rN/
P=$1
for n in 1 2 3; do
  src=/tmp/w5_$P/_out
  [ -f $src/refactor$n.diff ] || continue
  d=/verif/refactors/$P-r$n
  mkdir -p $d
  cp $src/refactor$n.diff $d/refactor.diff
  [ -f $src/notes$n.md ] && cp $src/notes$n.md $d/notes.md
  echo imported $d
done
