#!/bin/sh
# evaluates every seeded/<id>/ that has no result.json yet (all 20 quick checks each)
cd /verif
for d in seeded/*/; do
  [ -f $d/result.json ] && continue
  [ -f $d/patch.diff ] || continue
  echo "=== $d"
  /venv/bin/python tools/eval_seeded.py $d --checks ${CHECKS:-all} 2>&1 | tail -40
done
