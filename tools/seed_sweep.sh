#!/bin/sh
# every quick check on the unchanged tree for several seeds, each from a fresh process; prints anything that is not silent
cd /verif
for s in ${SEEDS:-0 1 2 3 4 5}; do
  for i in 01 02 03 04 05 06 07 08 09 10 11 12 13 14 15 16 17 18 19 20; do
    out=$(VERIF_SEED=$s ./check C$i 2>&1); rc=$?
    echo "$out" | grep -E "VIOLATION|HARNESS" | sed "s/^/seed=$s /"
    echo "seed=$s C$i exit=$rc $(echo "$out" | grep -oE 'wall=[0-9.]+s' | head -1)"
  done
done
