#!/bin/sh
# tools/import_seeded2.sh C10 -> copies /tmp/w2_C10/_out/{patchN.diff,demoN.py,notesN.md} into seeded/C10-{N+2}/
P=$1
for n in 1 2; do
  src=/tmp/w2_$P/_out
  [ -f $src/patch$n.diff ] || continue
  d=/verif/seeded/$P-$((n+2))
  mkdir -p $d
  cp $src/patch$n.diff $d/patch.diff
  cp $src/demo$n.py $d/demo.py
  [ -f $src/notes$n.md ] && cp $src/notes$n.md $d/notes.md
  echo imported $d
done
