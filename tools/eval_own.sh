#!/bin/sh
# phase 1: each seeded change against the check(s) of its own property only; result -> result_<tag>.json
TAG=${1:-before}
cd /verif
for d in seeded/*/; do
  id=$(basename $d); prop=${id%-*}
  [ -f $d/result_$TAG.json ] && continue
  /venv/bin/python tools/eval_seeded.py $d --checks $prop ${SKIPSUITE:+--skip-suite} > /tmp/evalown_$id.log 2>&1
  mv $d/result.json $d/result_$TAG.json
  /venv/bin/python - $d/result_$TAG.json <<'P'
import json,sys
r=json.load(open(sys.argv[1]))
print(r['dir'].split('/')[-1], 'suite_ok=%s demo=%s/%s caught_by=%s'%(r.get('suite_passes'), r.get('demo_exit_on_changed'), r.get('demo_exit_on_clean'), r.get('caught_by')), {c:(e['clauses'][:3], e.get('replay_fails_on_changed'), e.get('replay_passes_on_clean')) for c,e in r.get('checks',{}).items()})
P
done
