#!/bin/sh
# final pass: every seeded change against its own property's quick check with the final machinery -> result_final.json
cd /verif
for d in seeded/*/; do
  id=$(basename $d); prop=${id%-*}
  [ -f $d/patch.diff ] || continue
  [ -f $d/result_final.json ] && continue
  /venv/bin/python tools/eval_seeded.py $d --checks $prop --skip-suite --out result_final.json > /tmp/evalfinal_$id.log 2>&1
  /venv/bin/python - $d <<'P'
import json,sys,os
d=sys.argv[1]
r=json.load(open(os.path.join(d,'result_final.json')))
print(os.path.basename(d.rstrip('/')), 'applies=%s demo=%s/%s caught_by=%s'%(r.get('patch_applies'), r.get('demo_exit_on_changed'), r.get('demo_exit_on_clean'), r.get('caught_by')),
      {c:(e['clauses'][:3], e.get('replay_fails_on_changed'), e.get('replay_passes_on_clean')) for c,e in r.get('checks',{}).items()})
P
done
