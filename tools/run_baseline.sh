#!/bin/sh
# runs the pinned suite (guard off) on a source tree and checks that all 164 stable tests pass
# usage: tools/run_baseline.sh [repo_dir]   (default /repo)
R=${1:-/repo}
T=$(mktemp -d /tmp/twbase.XXXXXX)
cd "$R" && env -u TRAFFIC_WEAVER_VERIF -u TW_VERIF_SRC /venv/bin/python -m pytest -ra -q -p no:cacheprovider --timeout=900 --continue-on-collection-errors --junitxml=$T/j.xml >$T/log 2>&1
/venv/bin/python - "$T/j.xml" <<'P'
import json,sys,xml.etree.ElementTree as ET
b=json.load(open('/root/.vp/BASELINE.json'))
root=ET.parse(sys.argv[1]).getroot()
passed=set();failed=set()
for tc in root.iter('testcase'):
    tid=(tc.get('classname') or '')+'::'+(tc.get('name') or '')
    if tc.find('failure') is not None or tc.find('error') is not None: failed.add(tid)
    elif tc.find('skipped') is None: passed.add(tid)
passed-=failed
missing=[t for t in b['stable_pass'] if t not in passed]
newly=[t for t in passed if t in b['always_fail']]
print('passed=%d failed=%d stable_missing=%d newly_passing_always_fail=%d'%(len(passed),len(failed),len(missing),len(newly)))
for m in missing: print('  MISSING',m)
sys.exit(1 if missing else 0)
P
rc=$?
rm -rf "$T" "$R/htmlcov" "$R/.coverage"
exit $rc
