#!/venv/bin/python
"""Evaluate one seeded change: tools/eval_seeded.py <dir with patch.diff + demo.py> [--checks C01,C05|all] [--tier quick]

1. scratch git worktree of /repo HEAD (under /tmp, removed afterwards), `git apply patch.diff`
2. the pinned suite must still pass there (all 164 stable tests)
3. the demonstration must fail (exit 1) on the changed tree and pass (exit 0) on /repo
4. the selected checks run with TW_VERIF_SRC pointing at the changed tree (from a scratch copy of /verif's working
   tree state, so evidence in /verif is not overwritten); a replay artefact of each reported violation is re-run on
   the clean tree (must pass) and on the changed tree (must fail)
Writes <dir>/result.json."""
import argparse
import json
import os
import re
import shutil
import subprocess
import sys
import tempfile
import time

ROOT = os.path.dirname(os.path.dirname(os.path.abspath(__file__)))
ALL = ["C%02d" % i for i in range(1, 21)]


def sh(cmd, **kw):
    return subprocess.run(cmd, shell=True, capture_output=True, text=True, **kw)


def main():
    ap = argparse.ArgumentParser()
    ap.add_argument("dir")
    ap.add_argument("--checks", default="all")
    ap.add_argument("--tier", default="quick")
    ap.add_argument("--skip-suite", action="store_true")
    ap.add_argument("--out", default="result.json")
    a = ap.parse_args()
    d = os.path.abspath(a.dir)
    patch = os.path.join(d, "patch.diff")
    demo = os.path.join(d, "demo.py")
    wt = tempfile.mkdtemp(prefix="twseed-", dir="/tmp")
    os.rmdir(wt)
    vcopy = tempfile.mkdtemp(prefix="twverifcopy-", dir="/tmp")
    res = {"dir": d, "at": time.strftime("%Y-%m-%d %H:%M:%S"), "repo_head": sh("git -C /repo rev-parse --short HEAD").stdout.strip()}
    try:
        r = sh("git -C /repo worktree add -q --detach %s HEAD" % wt)
        if r.returncode:
            print(r.stderr)
            return 2
        r = sh("git -C %s apply %s" % (wt, patch))
        res["patch_applies"] = r.returncode == 0
        if r.returncode:
            res["apply_error"] = r.stderr[-500:]
            print("PATCH DOES NOT APPLY", r.stderr[-300:])
            json.dump(res, open(os.path.join(d, a.out), "w"), indent=1)
            return 1
        if not a.skip_suite:
            r = sh("%s/tools/run_baseline.sh %s" % (ROOT, wt))
            res["suite_passes"] = r.returncode == 0
            res["suite_summary"] = r.stdout.strip().splitlines()[:6]
        env = dict(os.environ, PYTHONPATH=os.path.join(wt, "src"))
        r1 = sh("/venv/bin/python %s" % demo, env=env, cwd=wt, timeout=600)
        env2 = dict(os.environ, PYTHONPATH="/repo/src")
        r2 = sh("/venv/bin/python %s" % demo, env=env2, cwd="/tmp", timeout=600)
        res["demo_exit_on_changed"] = r1.returncode
        res["demo_exit_on_clean"] = r2.returncode
        res["demo_output_on_changed"] = (r1.stdout + r1.stderr)[-600:]
        # scratch copy of /verif (working tree) so that evidence / replays of /verif are untouched
        sh("rsync -a --exclude .git --exclude replays --exclude evidence --exclude seeded --exclude __pycache__ %s/ %s/" % (ROOT, vcopy))
        checks = ALL if a.checks == "all" else a.checks.split(",")
        res["checks"] = {}
        for c in checks:
            t0 = time.time()
            envc = dict(os.environ, TW_VERIF_SRC=os.path.join(wt, "src"))
            r = sh("./check %s --tier %s" % (c, a.tier), env=envc, cwd=vcopy, timeout=3600)
            out = r.stdout
            viol = re.findall(r"VIOLATION property=(\S+) replay=(\S+)", out)
            clauses = re.findall(r"^  clause=(\S+) key=(.*?) detail=", out, re.M)
            entry = {"exit": r.returncode, "violations": len(viol), "wall_s": round(time.time() - t0, 1),
                     "clauses": sorted(set(cl for cl, _ in clauses))[:12]}
            if r.returncode not in (0, 1):
                entry["stderr"] = r.stderr[-800:]
            # replay the first violation on both trees
            if viol and os.path.exists(viol[0][1]):
                rp = viol[0][1]
                ra = sh("./check %s --replay %s" % (c, rp), env=envc, cwd=vcopy, timeout=600)
                rb = sh("./check %s --replay %s" % (c, rp), cwd=vcopy, timeout=600)
                entry["replay_fails_on_changed"] = ra.returncode == 1
                entry["replay_passes_on_clean"] = rb.returncode == 0
                try:
                    rec = json.load(open(rp))
                    entry["first_counterexample"] = json.dumps({"clause": rec["clause"], "case": rec["case"]})[:700]
                except Exception:
                    pass
            res["checks"][c] = entry
            print("%s exit=%d violations=%d %s %.0fs" % (c, r.returncode, len(viol), entry["clauses"][:4], entry["wall_s"]), flush=True)
        res["caught_by"] = [c for c, e in res["checks"].items() if e["exit"] == 1]
        res["harness_errors"] = [c for c, e in res["checks"].items() if e["exit"] not in (0, 1)]
    finally:
        sh("git -C /repo worktree remove --force %s" % wt)
        shutil.rmtree(wt, ignore_errors=True)
        shutil.rmtree(vcopy, ignore_errors=True)
        sh("git -C /repo worktree prune")
    json.dump(res, open(os.path.join(d, a.out), "w"), indent=1)
    print(json.dumps({k: v for k, v in res.items() if k not in ("checks", "demo_output_on_changed")}, indent=1))
    return 0


if __name__ == "__main__":
    sys.exit(main())
