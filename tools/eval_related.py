#!/venv/bin/python
"""For every seeded change: run the quick checks of all properties whose anchored files (properties.jsonl) are touched by
the patch; writes seeded/<id>/result.json.  usage: tools/eval_related.py [id ...]"""
import json, os, re, subprocess, sys
ROOT = os.path.dirname(os.path.dirname(os.path.abspath(__file__)))
props = [json.loads(l) for l in open(os.path.join(ROOT, "properties.jsonl"))]
files_of = {p["id"]: set(f for f in p["anchors"]["files"]) for p in props}
ids = sys.argv[1:] or sorted(os.listdir(os.path.join(ROOT, "seeded")))
for i in ids:
    d = os.path.join(ROOT, "seeded", i)
    if not os.path.exists(os.path.join(d, "patch.diff")) or os.path.exists(os.path.join(d, "result.json")):
        continue
    touched = set(re.findall(r"^\+\+\+ b/(\S+)", open(os.path.join(d, "patch.diff")).read(), re.M))
    rel = []
    for pid, fs in files_of.items():
        if any(t == f or (f.endswith("/") and t.startswith(f)) for t in touched for f in fs):
            rel.append(pid)
    own = i.split("-")[0]
    if own not in rel:
        rel.append(own)
    print("===", i, "touched", sorted(touched), "->", sorted(rel), flush=True)
    r = subprocess.run([os.path.join(ROOT, "tools", "eval_seeded.py"), d, "--checks", ",".join(sorted(rel))], capture_output=True, text=True)
    print("\n".join(l for l in r.stdout.splitlines() if re.match(r"^C\d+ exit|^ \"(caught_by|harness_errors|suite_passes|demo_exit)", l) or "]" == l.strip()[:1]), flush=True)
