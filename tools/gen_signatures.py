#!/venv/bin/python
"""Writes mc/api_signatures.json: the documented call signatures (parameter order, names, simple defaults) of the public
callables of the package as they are on the tree this is run against (the pinned tree + repairs).  The input forms
'positional' and 'keyword' (mc/forms.py) re-issue calls in the other calling convention *according to this table*, so a
change that inserts, reorders or renames parameters of the documented API is seen by the callers that rely on it."""
import importlib, inspect, json, os, pkgutil, sys
ROOT = os.path.dirname(os.path.dirname(os.path.abspath(__file__)))
import traffic_weaver
table = {}


def entry(fn):
    out = []
    for p in inspect.signature(fn).parameters.values():
        d = p.default
        if d is inspect.Parameter.empty:
            dv = "__required__"
        elif d is None or type(d) in (bool, int, float, str):
            dv = {"value": d}
        else:
            dv = "__opaque__"
        out.append([p.name, p.kind.name, dv])
    return out


mods = [traffic_weaver]
for mi in pkgutil.walk_packages(traffic_weaver.__path__, "traffic_weaver."):
    if ".datasets" in mi.name or mi.name.endswith("_version"):
        continue
    mods.append(importlib.import_module(mi.name))
for m in mods:
    for name, obj in vars(m).items():
        if inspect.isfunction(obj) and (obj.__module__ or "").startswith("traffic_weaver") and not name.startswith("_"):
            table[obj.__module__ + "." + obj.__qualname__] = entry(obj)
        elif inspect.isclass(obj) and (obj.__module__ or "").startswith("traffic_weaver"):
            for an, av in vars(obj).items():
                if an.startswith("_") and an != "__init__":
                    continue
                f = av.__func__ if isinstance(av, (classmethod, staticmethod)) else av
                if inspect.isfunction(f):
                    e = entry(f)
                    if isinstance(av, classmethod):
                        e = [["cls", "POSITIONAL_OR_KEYWORD", "__required__"]] + e if (not e or e[0][0] != "cls") else e
                    table[obj.__module__ + "." + obj.__qualname__ + "." + an] = e
json.dump(table, open(os.path.join(ROOT, "mc", "api_signatures.json"), "w"), indent=0, sort_keys=True)
print(len(table), "signatures")
