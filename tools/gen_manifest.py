#!/venv/bin/python
"""Regenerates /verif/MANIFEST.json from the table below (keeps it schema-valid at all times)."""
import json
import os
import sys

ROOT = os.path.dirname(os.path.dirname(os.path.abspath(__file__)))
sys.path.insert(0, ROOT)

# id -> (design_ref, technique, level text, level note)
CHECKS = {}


def add(pid, ref, technique, text, note):
    CHECKS[pid] = (ref, technique, text, note)


E1 = "bounded exhaustive enumeration of an input/configuration lattice through a stateless choice-tree explorer, each case run on the real code and compared with an independent exact reference model"
E2 = "exhaustive exploration of all operation histories up to a depth bound on a live Weaver object (stateless re-execution + explicit-state merging), invariants evaluated in every state against a functional reference model"
E3 = "exhaustive exploration of fault scripts, crash points and thread schedules of the real loader under an audit-hook baton scheduler over a scripted network, plus a TLC-checked model whose every edge is replayed against the implementation"

add("C10", "4/C10", E1,
    "All strictly increasing arrays (<=5/6 elements over an integer lattice) x all sorted query multisets (<=3/4 over the "
    "half-integer lattice) x fill flag x input type x 3 searches + dispatcher, plus ulp-neighbourhood float slices, "
    "each compared with the bisect definition: a coverage statement over the whole bounded space, not a sample.",
    "bisect reference model; CPython/NumPy float comparison semantics; inputs beyond the lattice bounds are not covered")

ALL = ["C%02d" % i for i in range(1, 21)]
NOT_BUILT = "check not built yet in this session (design in DESIGN.md section 4); will be claimed once its harness exists"


def main():
    checks = []
    for pid in ALL:
        if pid not in CHECKS:
            continue
        ref, tech, text, note = CHECKS[pid]
        if not os.path.exists(os.path.join(ROOT, "checks", pid.lower() + ".py")):
            continue
        checks.append({
            "property_id": pid,
            "quick_cmd": "./check %s --tier quick" % pid,
            "thorough_cmd": "./check %s --tier thorough" % pid,
            "evidence_file": "/verif/evidence/%s.json" % pid,
            "replay_cmd_template": "./check %s --replay {path}" % pid,
            "engine": "mc",
            "level_claimed": {"category": "model_checking", "text": text, "design_ref": "DESIGN.md section " + ref},
            "level_note": note,
            "technique": tech,
        })
    claimed = {c["property_id"] for c in checks}
    man = {
        "version": 1,
        "setup_cmd": "cd /verif && chmod +x check && /venv/bin/python -m mc.selftest",
        "hooks": {"guard": "TRAFFIC_WEAVER_VERIF",
                  "enable": "no source hooks exist: every seam (fake network, virtual sleep, audit-hook scheduler, RNG "
                            "recorder) is installed from the harness side at run time; checks import /repo/src as it is "
                            "(editable install) or the tree named by TW_VERIF_SRC",
                  "baseline_off_cmd": "cd /repo && env -u TRAFFIC_WEAVER_VERIF /venv/bin/python -m pytest -ra -q -p no:cacheprovider --timeout=900 --continue-on-collection-errors",
                  "source_commits": [], "add_only": True},
        "engines": [{"name": "mc", "path": "/verif/mc", "serves_properties": sorted(claimed),
                     "kind_free_text": "hand-written stateless choice-tree model checker (re-execution, deviation "
                                       "bounds, 16-way sharding) + explicit-state BFS; harnesses in /verif/checks"}],
        "checks": checks,
        "not_applicable": [{"property_id": p, "reason": NOT_BUILT} for p in ALL if p not in claimed],
        "notes": "All checks run the real code from /repo's working tree. ./check <ID> --tier quick|thorough; "
                 "VERIF_SEED selects the extension slice (never sampling). Known findings: /verif/known_findings.json.",
    }
    with open(os.path.join(ROOT, "MANIFEST.json"), "w") as f:
        json.dump(man, f, indent=1)
    print("claimed:", sorted(claimed))


if __name__ == "__main__":
    main()
