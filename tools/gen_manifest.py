#!/venv/bin/python
"""Regenerates /verif/MANIFEST.json from the table below (keeps it schema-valid at all times)."""
import json
import os
import sys

ROOT = os.path.dirname(os.path.dirname(os.path.abspath(__file__)))
sys.path.insert(0, ROOT)

# id -> (design_ref, technique, level text, level note)
CHECKS = {}


def add(pid, ref, technique, text, note):
    CHECKS[pid] = (ref, technique, text, note)


E1 = "bounded exhaustive enumeration of an input/configuration lattice through a stateless choice-tree explorer, each case run on the real code and compared with an independent exact reference model"
E2 = "exhaustive exploration of all operation histories up to a depth bound on a live Weaver object (stateless re-execution + explicit-state merging), invariants evaluated in every state against a functional reference model"
E3 = "exhaustive exploration of fault scripts, crash points and thread schedules of the real loader under an audit-hook baton scheduler over a scripted network, plus a TLC-checked model whose every edge is replayed against the implementation"

add("C10", "4/C10", E1,
    "All strictly increasing arrays (<=5/6 elements over an integer lattice) x all sorted query multisets (<=3/4 over the "
    "half-integer lattice) x fill flag x input type x 3 searches + dispatcher, plus ulp-neighbourhood float slices, "
    "each compared with the bisect definition: a coverage statement over the whole bounded space, not a sample.",
    "bisect reference model; CPython/NumPy float comparison semantics; inputs beyond the lattice bounds are not covered")

add("C01", "4/C01", E1,
    "Every grid of 5..6/8 strictly increasing samples on an integer lattice (and affine float images) x every increasing "
    "reference tuple on the half-integer lattice x 5 ways of designating fixed points x 2x2 rules x 4 exponents x "
    "spanning values, filtered by the stated precondition; every interval integral of the result compared with the "
    "exact reference integral. Exhaustive within the bounds, so a wrong weight, rule, slice or search shows on "
    "thousands of lattice points.",
    "exact Fraction reference for the reference integrals; 1e-9 relative tolerance; selection and value stages enumerated "
    "against reduced alphabets of each other (factorisation argued in DESIGN.md)")
add("C02", "4/C02", E1,
    "All small series (grids G(8,m), m<=5, lattice values) and structured series to 60 points x 6 strategies x parameter "
    "alphabets x n x both target rules x append variants through the real Weaver pipeline, plus all 19 bundled datasets; "
    "each interval mean compared with the original average and process.average with the original abscissae.",
    "1e-9 relative tolerance; default fixed points; FITPACK/NumPy trusted")
add("C03", "4/C03", E1,
    "The C01 space judged by displacement clauses (bytes outside the span, fixed points, one direction, cross-multiplied "
    "proportionality to the documented weights, idempotence) plus a kernel basis sweep over every grid of 3..6/8 points on "
    "{0..10} x 3 rational images x 2 rules x integer exponents 1..3 against exact Fraction images.",
    "affinity in (y, P) is checked on a basis + 5 lattice points per grid, not proved; non-integer exponents only in the C01-space part")
add("C04", "4/C04", E1,
    "7 strategy classes x every grid G(8,m), m<=5/6 (int/float, list/array) x n x window/beta/exponent alphabets x 3 value "
    "patterns: array types, lengths, bit-exact n-th abscissae, equal spacing to 4 ulp; n<2 rejection for every class.",
    "np.linspace rounding bounded by 4 ulp; suppliers tried are np.interp returning float / 0-d array")
add("C05", "4/C05", E1,
    "Every y in V^5 (all tie patterns) x x-patterns x n x alpha/a x beta x exponent x smoothing for the four window "
    "strategies, judged by output-only invariants (hull, plateau count/contiguity, monotone), plus piecewise-constant, "
    "spline and constant-series clauses. Known finding K1 (exponent 0.1, monotone) is listed, everything else must hold.",
    "1e-9 tolerance; dyadic parameter alphabets; quick thins the largest parameter products deterministically (thorough enumerates them fully)")
add("C06", "4/C06", E1,
    "The C05 space (adaptive smoothing 1) compared sample by sample with a docstring-derived reference model of the four "
    "strategies (exact windows, both truncations accepted at exact-integer boundaries), an exact-arithmetic slice, and the "
    "five shape functions on a lattice of abscissae x end values x 7 exponents.",
    "samples depending on the virtual interval behind the last point are excluded; exp_lin/lin_exp_xy closed forms as pinned by the shipped doctests")
add("C07", "4/C07", E1,
    "For every y in {0,1,3}^6 / V^6 x x-patterns x n x parameters x 6 strategies: 4 value maps, 4 time maps, every "
    "single-value replacement (locality window 1 / 2 intervals) and the weight matrix W reproduced on the whole lattice "
    "(rows sum to 1, non-negative except spline).",
    "adaptive strategies only under exactly representable value maps; 1e-9 tolerance")
add("C17", "4/C17", E1,
    "Literal list-code contracts of the oversample/extend/append helpers, the interval view (every [i,j] read and write for "
    "every length 1..24 x interval size 1..8, layouts, closed intervals, oversampling) and block averaging incl. the round "
    "trip, on all arrays of length 1..5/6 over small lattices and structured arrays to 50, n=1..16.",
    "np.linspace/np.pad trusted; extend_linspace defaults only defined for len(a) > n")

add("C11", "4/C11", E1,
    "Every series on G(7,k) x every pair of absolute bounds on the half-integer lattice (below, inside, on, above the "
    "range) x ratio bounds in all flag combinations x three entry points (function, Weaver unreshaped, Weaver recreated), "
    "every (start, stop) of slice_by_value incl. omitted bounds and the first sample, every index (start, stop, step).",
    "ratio bounds on dyadic grids only; rejections belong to C20")
add("C12", "4/C12", E1,
    "Every series on G(7,k) (3 images, int/float, list/array) x r=1..12 x all factor pairs ab<=12 through process.repeat "
    "and Weaver.repeat: tiling, spacing inside each copy, junction step, first copy, monotonicity, composition, reference.",
    "exact on dyadic grids, 1e-9 on the non-dyadic image")
add("C13", "4/C13", E1,
    "Every series on G(8,k), k=4..5/6 x value lattice + affine data x 4 methods x every sorted new grid of <=2/4 half-lattice "
    "points from below to beyond the range; Weaver.interpolate(n), n=2..12, and explicit grids sharing both/one/no end point.",
    "'linear' claimed inside the range only; scipy splines trusted to rounding")
add("C14", "4/C14", E1,
    "Every series on G(7,k) with abscissa offsets/scales x V+-^k x 6 trend callables x normalised or not x trend pairs "
    "(additivity) x shifts x scales x normalise ranges through process.* and the Weaver; bit-equal to the independently "
    "evaluated IEEE expression.",
    "pure scalar trend callables; normalise to 1e-12")
add("C15", "4/C15", E1,
    "Every signal in V+-^k (k<=5/6, non-zero) x 12 snr forms (dB, linear, per-sample list/array, explicit std) x 2 entry "
    "points with the generator owned by a seam that records loc/scale/size; plus the real generator under 3 seeds on "
    "2*10^5 samples (reproducibility, empirical SNR within 3 %).",
    "the statistical sentence is a finite 3-seed confirmation, not a proof")
add("C16", "4/C16", E1,
    "Series of 5..6/7 points on 3 grids x 2 scales x {0,1,3}^k + ramps/affine x 8 smoothing values x 3 entry points: "
    "smoothing condition within 0.1 %, identity for s=0 and affine data, default s = len*var, interpolating to_function.",
    "FITPACK trusted; executions with FITPACK warnings discarded (counted)")

add("C08", "4/C08 + 6", E2,
    "All sequences of the 19 concrete domain operations (10 kinds) to depth 3/4 from 5 initial series on the live Weaver; "
    "in every state working == reference (bytes) == exact rational model of the transformed original; every reshaping "
    "operation leaves the reference bytes-unchanged; recreate+match tail against the transformed averages; shift/scale "
    "commute with the pipeline.",
    "truncation bounds strictly between samples; quick rotates the 24 tail combinations over the states, thorough runs all; "
    "histories longer than the depth bound are not covered")
add("C09", "4/C09 + 6", E2,
    "All programs over the whole public API (59 concrete operations, 19 kinds, 7 constructors) respecting documented "
    "preconditions: full alphabet to depth 2/3, core alphabet to depth 3/4, README pipeline with <=1/2 deviations "
    "(programs of <=9 operations); well-formedness, caller data, original in every state; after restore_original "
    "observational equality with a fresh object plus 1-step bisimulation over the alphabet.",
    "deterministic noise seam; equal observable state implies equal futures is argued (operations read only the three series) "
    "and re-checked one step deep")
add("C20", "4/C20", E2,
    "Every invalid-argument class of the statement (2-6 variants each) at function level over a lattice of surrounding valid "
    "arguments, and 38 invalid Weaver requests fired in every state reached by all programs over the core alphabet to depth "
    "2/3 from 7 constructors: exactly ValueError, and working/reference/original bytes-, dtype- and type-identical afterwards.",
    "only the listed classes are demanded; object identity after rejection is not")

add("C18", "4/C18", E3,
    "The finite configuration space is enumerated completely: all 95 documented names x every '-'/'_' spelling x unpack flag "
    "through load_dataset against a scripted network and scratch HOME / TRAFFIC_WEAVER_DATA; ~200 unknown names; pairwise "
    "distinctness of URL, checksum, remote file name and cache slot over all 76 remote datasets.",
    "pinned checksums are only checked for shape and distinctness (real files unavailable offline); loader body runs with the fake payload's checksum")
add("C19", "4/C19 + 5", E3,
    "The real loader in a closed environment (scripted network, virtual sleep, every audited OS event / stat / network call / "
    "half-write a step boundary): all lazily chosen network-answer sequences x n_retries x flags x gzip x initial cache state; "
    "a kill at every step boundary under two crash models that must agree, followed by offline and online recovery; "
    "explicit-state BFS over ALL interleavings of 2 and 3 loaders (4 in thorough) with <=1 crash and <=1 fault; 4 loaders "
    "preemption-bounded; all 5700 ordered dataset pairs.",
    "crash = process kill, not power loss; 5..16 loaders are not explored directly (see DESIGN.md 5.6); CPython refcounting closes files")

ALL = ["C%02d" % i for i in range(1, 21)]
NOT_BUILT = "check not built yet in this session (design in DESIGN.md section 4); will be claimed once its harness exists"


def main():
    checks = []
    for pid in ALL:
        if pid not in CHECKS:
            continue
        ref, tech, text, note = CHECKS[pid]
        if not os.path.exists(os.path.join(ROOT, "checks", pid.lower() + ".py")):
            continue
        checks.append({
            "property_id": pid,
            "quick_cmd": "./check %s --tier quick" % pid,
            "thorough_cmd": "./check %s --tier thorough" % pid,
            "evidence_file": "/verif/evidence/%s.json" % pid,
            "replay_cmd_template": "./check %s --replay {path}" % pid,
            "engine": "mc",
            "level_claimed": {"category": "model_checking", "text": text, "design_ref": "DESIGN.md section " + ref},
            "level_note": note,
            "technique": tech,
        })
    claimed = {c["property_id"] for c in checks}
    man = {
        "version": 1,
        "setup_cmd": "cd /verif && chmod +x check && /venv/bin/python -m mc.selftest",
        "hooks": {"guard": "TRAFFIC_WEAVER_VERIF",
                  "enable": "no source hooks exist: every seam (fake network, virtual sleep, audit-hook scheduler, RNG "
                            "recorder) is installed from the harness side at run time; checks import /repo/src as it is "
                            "(editable install) or the tree named by TW_VERIF_SRC",
                  "baseline_off_cmd": "cd /repo && env -u TRAFFIC_WEAVER_VERIF /venv/bin/python -m pytest -ra -q -p no:cacheprovider --timeout=900 --continue-on-collection-errors",
                  "source_commits": [], "add_only": True},
        "engines": [{"name": "mc", "path": "/verif/mc", "serves_properties": sorted(claimed),
                     "kind_free_text": "hand-written stateless choice-tree model checker (re-execution, deviation "
                                       "bounds, 16-way sharding) + explicit-state BFS; harnesses in /verif/checks"}],
        "checks": checks,
        "not_applicable": [{"property_id": p, "reason": NOT_BUILT} for p in ALL if p not in claimed],
        "notes": "All checks run the real code from /repo's working tree. ./check <ID> --tier quick|thorough; "
                 "VERIF_SEED selects the extension slice (never sampling). Known findings: /verif/known_findings.json.",
    }
    with open(os.path.join(ROOT, "MANIFEST.json"), "w") as f:
        json.dump(man, f, indent=1)
    print("claimed:", sorted(claimed))


if __name__ == "__main__":
    main()
