#!/venv/bin/python
"""Regenerates /verif/MANIFEST.json from the table below (keeps it schema-valid at all times)."""
import json
import os
import sys

ROOT = os.path.dirname(os.path.dirname(os.path.abspath(__file__)))
sys.path.insert(0, ROOT)

# id -> (design_ref, technique, level text, level note)
CHECKS = {}


def add(pid, ref, technique, text, note):
    CHECKS[pid] = (ref, technique, text, note)


E1 = "bounded exhaustive enumeration of an input/configuration lattice through a stateless choice-tree explorer, each case run on the real code and compared with an independent exact reference model"
E2 = "exhaustive exploration of all operation histories up to a depth bound on a live Weaver object (stateless re-execution + explicit-state merging), invariants evaluated in every state against a functional reference model"
E3 = "exhaustive exploration of fault scripts, crash points and thread schedules of the real loader under an audit-hook baton scheduler over a scripted network, plus a TLC-checked model whose every edge is replayed against the implementation"

add("C01", "4/C01 + 0", E1,
    "Grids G(7,5..6)/G(9,5..8) (integer, shifted so that 0 and negatives occur, dyadic / decimal / 2^-30 images) x every increasing "
    "reference tuple of the half-integer lattice x 5 ways of designating fixed points (with the 'ignored' search strategy rotating) x "
    "2x2 rules x 4 exponents x spanning values in float / int64 / list-of-int form, at three magnitudes and with references spanning "
    "18 orders of magnitude; every interval integral judged at its own scale against an exact reference; plus Weaver.integral_match "
    "in every state of all programs over 12 operations to depth 3/4.",
    "selection and value stages enumerated against reduced alphabets of each other (factorisation argued in DESIGN.md); tolerance 1e-9 relative")
add("C02", "4/C02 + 0", E1,
    "All small series (G(8,m), m<=5, lattice values; abscissae also shifted / scaled by 2^-30 / jittered by 1e-6; values also on a 2.5e6 "
    "baseline and at 1e-9) and structured series to 25/60 points x 6 strategies x parameters x n x both target rules x append variants "
    "through the real Weaver pipeline (optionally after an earlier recreation whose outputs the caller edited), all 19 bundled "
    "datasets, and Weaver.integral_match compared with the function in every state of all programs over 13 operations to depth 3/4.",
    "1e-9 relative to max|y|; default fixed points; FITPACK/NumPy trusted")
add("C03", "4/C03 + 0", E1,
    "The C01 space and the Weaver-state harness judged by displacement clauses (bytes outside the span, fixed points, one direction, "
    "cross-multiplied proportionality to the documented weights, idempotence) plus a kernel basis sweep over every grid of 3..6/8 points "
    "on {0..10} x 3 rational images x 2 rules x exponents 1..3 against exact Fraction images.",
    "affinity in (y, P) checked on a basis + 5 lattice points per grid, not proved")
add("C04", "4/C04 + 0", E1,
    "7 strategy classes x every grid G(8,m), m<=5/6 (int64 / float64 / float32 / list; decimal, 2^-30 and jittered images) x n x "
    "window/beta/exponent alphabets x value patterns, every n in 2..64 on four grids: array types, lengths, bit-exact n-th abscissae, "
    "equal spacing to 4 ulp; the caller edits the returned arrays and asks the same object again; n<2 rejected by every class.",
    "np.linspace rounding bounded by 4 ulp; suppliers tried are np.interp returning float / 0-d array")
add("C05", "4/C05 + 0", E1,
    "Every y in V^5 (all tie patterns; also on level 2^40) x x-patterns (also 2^-30-scaled and jittered, after a colliding uniform grid) x "
    "n x alpha/a x beta x exponent x smoothing for the four window strategies, judged by output-only invariants, second rfa() call "
    "included; piecewise-constant / spline / constant-series clauses incl. caller edits between calls. K1 (exponent 0.1, monotone) is "
    "the only listed finding.",
    "tolerance = 1e-9 of the spread + 256 ulp of the level; quick thins the largest parameter products deterministically")
add("C06", "4/C06 + 0", E1,
    "The C05 space (adaptive smoothing 1) compared sample by sample with a docstring-derived reference model (exact windows, both "
    "truncations accepted at exact-integer boundaries), an exact-arithmetic slice, and the five shape functions on a lattice of "
    "abscissae x end values x 7 exponents.",
    "samples depending on the virtual interval behind the last point are excluded; exp_lin/lin_exp_xy closed forms as pinned by the shipped doctests")
add("C07", "4/C07 + 0", E1,
    "For every y in {0,1,3}^6 / V^6 x x-patterns x n x parameters x 6 strategies: value maps, 7 time maps incl. shifts 2^20..2^32 "
    "(conditioning-aware tolerance), also applied in place to the caller's own array between two recreations and after a colliding "
    "grid, every single-value replacement (locality 1 / 2 intervals), weight matrix on the whole lattice.",
    "adaptive strategies only under exactly representable value maps")
add("C08", "4/C08 + 6", E2,
    "All sequences of 20 concrete domain operations (10 kinds) to depth 3/4 from 5 initial series (+ a series with a missing sample "
    "cut off first) on the live Weaver; in every state working == reference (bytes) == exact rational model; every reshaping "
    "operation leaves the reference bytes-unchanged; recreate+match tails against the transformed averages; shift/scale commute with "
    "the pipeline; thorough adds an explicit-state BFS with merging to depth 8 or 400k states.",
    "truncation bounds strictly between samples; quick rotates the 24 tail combinations over the states")
add("C09", "4/C09 + 6", E2,
    "All programs over the whole public API (60 concrete operations, 7 constructors) respecting documented preconditions: full "
    "alphabet to depth 2/3, core alphabet (25 ops, every kind) to depth 3/4, README pipeline with <=1/2 deviations, and programs on "
    "ulp-spaced abscissae; well-formedness, caller data, original in every state; after restore_original observational equality "
    "with a fresh object plus 1-step (whole alphabet) and 2-step (9 ops) bisimulation.",
    "deterministic noise seam; integral_match is called in every state with >= 2 samples on both series")
add("C10", "4/C10", E1,
    "All strictly increasing arrays (<=5/6 elements over {0..7} and {-3..4}) x all sorted query multisets (<=3/4 over the half-integer "
    "lattice) x fill flag x input type x 3 searches + dispatcher; float slices with queries at / 1 ulp around / between / beyond the "
    "elements and arrays with adjacent floats; the same ndarray edited in place between calls and the returned index array scribbled on.",
    "'closest': exact nearest demanded, the neighbour chosen by correctly rounded distances also accepted")
add("C11", "4/C11", E1,
    "Every series on G(7,k) (5 images incl. 2^50+x and x/2^20) x every pair of absolute bounds of the half-integer lattice x ratio bounds "
    "in all flag combinations x three entry points; every (start, stop) of slice_by_value; every index (start, stop, step); "
    "slice_by_value in every state of Weaver histories (depth 3/4, incl. restore_original); truncate on an array edited in place.",
    "ratio bounds on dyadic grids only; rejections belong to C20")
add("C12", "4/C12", E1,
    "Every series on G(7,k) (6 images incl. 1e-9 x and level 1e6, int/float, list/array) x r=1..12 x all factor pairs ab<=12 through "
    "process.repeat and Weaver.repeat; narrow integer abscissae near their dtype's maximum; Weaver.repeat of the current series in "
    "every state of histories to depth 2/3.",
    "exact on dyadic grids; otherwise 8r ulp of the level + 1e-9 of a step")
add("C13", "4/C13", E1,
    "Every series on G(8,k), k=4..5/6 (also moved to negative abscissae; float / int array / int list) x value lattice + affine data "
    "x 4 methods x every sorted new grid of <=2/3 half-lattice points (float / int array / int list) from below to beyond the range, "
    "after an earlier call with method-specific options; Weaver.interpolate(n), n=2..12, explicit grids sharing both/one/no end point.",
    "'linear' claimed inside the range only; scipy splines trusted to rounding")
add("C14", "4/C14", E1,
    "Every series on G(7,k) with offsets/scales (and descending abscissae at function level) x V+-^k x 6 trend callables x normalised "
    "or not x trend pairs x shifts x scales x normalise ranges (also on levels 1e6 / 1.7e9 and at 1e-9); bit-equal to the "
    "independently evaluated IEEE expression; the pointwise maps in every state of Weaver histories to depth 3.",
    "pure scalar trend callables; normalise to 1e-12")
add("C15", "4/C15", E1,
    "Every signal in V+-^k (k<=5/6, non-zero) x 12 snr forms (dB, linear, per-sample list/array, explicit std; uint8 / int32 / float32 "
    "typed) x 2 entry points with the generator owned by a seam recording loc/scale/size; caller's signal and snr arrays untouched, "
    "second call identical; real generator under 3 seeds on 2*10^5 samples.",
    "the statistical sentence is a finite 3-seed confirmation, not a proof")
add("C16", "4/C16", E1,
    "Series of 5..6/7 points on 3 grids x 2 scales x {0,1,3}^k + ramps/affine (float, int16, int32 of large magnitude) x 8 smoothing "
    "values x 3 entry points; to_function consistent with get() in every state of domain-operation histories to depth 2/3.",
    "FITPACK trusted; executions with FITPACK warnings discarded (counted)")
add("C17", "4/C17", E1,
    "Literal list-code contracts of the oversample/extend/append helpers (incl. end values equal to 0), the interval view (every [i,j] "
    "read and write for every length 1..24 x size 1..8, layouts, closed intervals, oversampling; all operation sequences of length 3 "
    "incl. negative indices and extensions), integrals on 5 abscissa images and block averaging incl. 1e12 dynamic range.",
    "np.linspace/np.pad trusted; extend_linspace defaults only defined for len(a) > n")
add("C18", "4/C18", E3,
    "The finite configuration space is enumerated completely: all 95 documented names x every '-'/'_' spelling x unpack flag through "
    "load_dataset against a scripted network and scratch HOME / TRAFFIC_WEAVER_DATA; ~340 unknown names incl. every attribute of "
    "the lookup namespaces with loader prefixes stripped; pairwise distinctness of URL, checksum, remote file name and cache slot.",
    "pinned checksums only checked for shape and distinctness (real files unavailable offline)")
add("C19", "4/C19 + 5", E3,
    "The real loader in a closed environment (scripted network, virtual sleep, every audited OS event / stat / network call / file "
    "open / buffered write a step boundary, two buffer regimes): all network-answer sequences x n_retries x flags x gzip x initial "
    "cache state; a kill at every step boundary under two crash models that must agree, then offline and online recovery; "
    "explicit-state BFS over ALL interleavings of 2 and 3 loaders of one dataset (4 in thorough) and of two datasets sharing a folder, "
    "with <=1 crash and <=1 fault; 4 loaders preemption-bounded; all 5700 ordered dataset pairs; a TLA+ model checked by TLC up "
    "to 16 loaders whose every N=2 (thorough: N=3) edge is replayed against the code.",
    "crash = process kill, not power loss; interleavings finer than the model's actions only for 2-4 loaders; CPython refcounting closes files")
add("C20", "4/C20", E2,
    "Every invalid-argument class of the statement (2-6 variants each, incl. combinations such as unknown rule + single fixed point, a "
    "fixed point one ulp off a sample, a range invalid for the reference only) at function level over a lattice of valid arguments, "
    "and ~45 invalid Weaver requests fired in every state of all programs over the core alphabet to depth 2/3 from 7 constructors: "
    "exactly ValueError, and working/reference/original bytes-, dtype- and type-identical afterwards.",
    "only the listed classes are demanded; requests that the operation may legitimately honour are judged only by what a refusal leaves behind")

SIZES = ("sizes from the size alphabet (every size up to a dense bound, 2^k+1, and the neighbourhood of every integer constant "
         "found in the AST of the source under test)")
LONG = {
    "C01": "Long-input harness: samples per interval over " + SIZES + ", first fixed point at sample 0/1/5, reference on / off the grid; twin intervals of equal width and count with different layouts.",
    "C02": "Long-input harness: (m, n) with oversampled length (m-1)n+1 just above 64..1024 and every integer constant of the numeric code.",
    "C03": "Long-input harness: as C01 (long and twin intervals), judged by the displacement clauses.",
    "C04": "Sampling functions also: constant level, scalar-only, one-point kernel smoothers returning float / 0-d.",
    "C05": "Long-input harness: number of averages over " + SIZES + " on uniform / gap-cycling / late-gap grids, n in {2,5,12(,33)}.",
    "C06": "Long-input harness: number of averages over " + SIZES + " on uniform / gap-cycling / late-gap grids, n in {2,5,12(,33)}.",
    "C07": "Unit maps also with a large baseline (3e6, 2^22) and tiny units (2^-30, 1e-9), judged relative to the mapped variation. Long-input harness: locality at the interesting positions and unit maps for numbers of averages over " + SIZES + ".",
    "C08": "Alphabet also: truncation bounds exactly on samples (unreshaped states), repeat 6 and 7.",
    "C09": "Alphabet also: truncation bounds exactly on samples (unreshaped states), repeat 6 and 7.",
    "C10": "Long-input harness: array lengths over " + SIZES + "; every element / midpoint / outside value as a single query, every pair of them (the second scan starts where the first ended), and all in one call.",
    "C11": "Long-input harness: series lengths over " + SIZES + ", all pairs of bounds on / between the interesting samples; bounds one ulp below / above every sample and at its short decimal literal on inexact grids.",
    "C12": "Long-input harness: every length 2..130(300), 2^k+1, code constants; r up to 17 (34).",
    "C13": "Long-input harness: series lengths over " + SIZES + " and new grids with P points left of / R points beyond the data for P, R over the same alphabet.",
    "C14": "Negative scale_x followed by normalize_x. Long-input harness: trend / shift / scale / normalise on lengths over " + SIZES + ".",
    "C15": "Integer-typed signals (int64 up to 1e18, int32, int16, uint8 at counter magnitudes); non-stationary long signals at the seam with lengths around every integer constant of the code.",
    "C16": "Long-input harness: lengths over " + SIZES + " (<= 1100 / 3300).",
    "C17": "Long-input harness: average / oversample-average round trip / interval view on lengths across 64..1024 and every integer constant of the code, interval sizes 1..17, 31..33, 64.",
    "C18": "History harness: all documented names, three passes, three orders, in one process and one data home (later passes: cached, no network, same data; returned arrays scribbled on).",
    "C19": "Payload harness: plain / gzip / 2- and 3-member gzip payloads with sizes across 4 KiB..256 KiB(+1 MiB) and every integer constant of the loader's source; one changed byte in the first chunk, after each chunk boundary and in the last bytes must be refused and never cached.",
    "C20": "Also: every function-level invalid call around long series (lengths over the size alphabet) and every invalid Weaver request in large states (recreate with n in 17..64 and code constants + 1, one more operation).",
}

FORMS_TEXT = ("Input-forms harness: a thinned sub-lattice of every harness (first / middle / last option of every alphabet, the first "
              "operation of a history and the invalid request never thinned) re-run with the arguments of each outermost call "
              "converted at the package boundary to a strided view, a read-only array, columns of one shared buffer, a "
              "negative-stride view, NumPy-scalar / Python-int parameters, and re-issued positionally / by keyword according to the "
              "documented signatures; judged by the same case checkers. Size alphabets also cross the platform constants 128, 256, "
              "2^15, 2^16, np.getbufsize(), io.DEFAULT_BUFFER_SIZE.")
W7 = {
    "C05": "Every n in 2..64 (130 thorough) on two short series; (m, n) pairs whose interval count crosses c // n for every threshold c.",
    "C06": "Every n in 2..64 (130 thorough) on two short series; (m, n) pairs whose interval count crosses c // n for every threshold c.",
    "C08": "Deep narrow histories: all histories over 11 operations (one per kind) to depth 4 (5 thorough).",
    "C20": "Deep narrow histories: all programs over 11 operations (one per kind, observers included) to depth 4 (5 thorough), invalid requests fired in every state at depth >= 3.",
    "C13": "Long series (up to 2*np.getbufsize()+2 samples) evaluated on short grids (samples and midpoints at the interesting positions).",
}

ALL = ["C%02d" % i for i in range(1, 21)]
NOT_BUILT = "check not built yet in this session (design in DESIGN.md section 4); will be claimed once its harness exists"


def main():
    checks = []
    for pid in ALL:
        if pid not in CHECKS:
            continue
        ref, tech, text, note = CHECKS[pid]
        if pid in LONG:
            text = text + " " + LONG[pid]
        if pid in W7:
            text = text + " " + W7[pid]
        if pid not in ("C18", "C19"):
            text = text + " " + FORMS_TEXT
        if not os.path.exists(os.path.join(ROOT, "checks", pid.lower() + ".py")):
            continue
        checks.append({
            "property_id": pid,
            "quick_cmd": "./check %s --tier quick" % pid,
            "thorough_cmd": "./check %s --tier thorough" % pid,
            "evidence_file": "/verif/evidence/%s.json" % pid,
            "replay_cmd_template": "./check %s --replay {path}" % pid,
            "engine": "mc",
            "level_claimed": {"category": "model_checking", "text": text, "design_ref": "DESIGN.md section " + ref},
            "level_note": note,
            "technique": tech,
        })
    claimed = {c["property_id"] for c in checks}
    man = {
        "version": 1,
        "setup_cmd": "cd /verif && chmod +x check && /venv/bin/python -m mc.selftest",
        "hooks": {"guard": "TRAFFIC_WEAVER_VERIF",
                  "enable": "no source hooks exist: every seam (fake network, virtual sleep, audit-hook scheduler, RNG "
                            "recorder) is installed from the harness side at run time; checks import /repo/src as it is "
                            "(editable install) or the tree named by TW_VERIF_SRC",
                  "baseline_off_cmd": "cd /repo && env -u TRAFFIC_WEAVER_VERIF /venv/bin/python -m pytest -ra -q -p no:cacheprovider --timeout=900 --continue-on-collection-errors",
                  "source_commits": [], "add_only": True},
        "engines": [{"name": "mc", "path": "/verif/mc", "serves_properties": sorted(claimed),
                     "kind_free_text": "hand-written stateless choice-tree model checker (re-execution, deviation "
                                       "bounds, 16-way sharding) + explicit-state BFS; harnesses in /verif/checks"}],
        "checks": checks,
        "not_applicable": [{"property_id": p, "reason": NOT_BUILT} for p in ALL if p not in claimed],
        "notes": "All checks run the real code from /repo's working tree. ./check <ID> --tier quick|thorough; "
                 "VERIF_SEED selects the extension slice (never sampling). Known findings: /verif/known_findings.json.",
    }
    with open(os.path.join(ROOT, "MANIFEST.json"), "w") as f:
        json.dump(man, f, indent=1)
    print("claimed:", sorted(claimed))


if __name__ == "__main__":
    main()
