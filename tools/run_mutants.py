#!/venv/bin/python
"""Own mutant campaign: applies each entry of mutants/catalogue.py to a scratch worktree, requires the pinned suite
to still pass, runs the check of the expected property (quick) against it, verifies the first replay artefact on both
trees.  Writes mutants/results.json and mutants/RESULTS.md.   usage: tools/run_mutants.py [id-substring]"""
import json
import os
import re
import shutil
import subprocess
import sys
import tempfile
import time

ROOT = os.path.dirname(os.path.dirname(os.path.abspath(__file__)))
sys.path.insert(0, ROOT)
from mutants.catalogue import M  # noqa: E402


def sh(cmd, **kw):
    return subprocess.run(cmd, shell=True, capture_output=True, text=True, **kw)


def main():
    flt = sys.argv[1] if len(sys.argv) > 1 else ""
    resf = os.path.join(ROOT, "mutants", "results.json")
    results = json.load(open(resf)) if os.path.exists(resf) else {}
    vcopy = tempfile.mkdtemp(prefix="twverifcopy-", dir="/tmp")
    sh("rsync -a --exclude .git --exclude replays --exclude evidence --exclude seeded --exclude __pycache__ %s/ %s/" % (ROOT, vcopy))
    try:
        for mu in M:
            if flt not in mu["id"]:
                continue
            if mu["id"] in results and not flt:
                continue
            wt = tempfile.mkdtemp(prefix="twmut-", dir="/tmp")
            os.rmdir(wt)
            r = {"property": mu["property"], "file": mu["file"], "note": mu.get("note", "")}
            try:
                sh("git -C /repo worktree add -q --detach %s HEAD" % wt)
                p = os.path.join(wt, "src", "traffic_weaver", mu["file"])
                src = open(p).read()
                if src.count(mu["old"]) != 1:
                    r["status"] = "does-not-apply (%d matches)" % src.count(mu["old"])
                    results[mu["id"]] = r
                    print(mu["id"], r["status"], flush=True)
                    continue
                open(p, "w").write(src.replace(mu["old"], mu["new"]))
                c = sh("/venv/bin/python -c \"import sys; sys.path.insert(0, '%s/src'); import traffic_weaver, traffic_weaver.datasets\"" % wt)
                if c.returncode:
                    r["status"] = "does-not-import"
                    r["error"] = c.stderr[-300:]
                    results[mu["id"]] = r
                    print(mu["id"], r["status"], flush=True)
                    continue
                b = sh("%s/tools/run_baseline.sh %s" % (ROOT, wt))
                r["suite_passes"] = b.returncode == 0
                if b.returncode:
                    r["status"] = "killed-by-pinned-suite"
                    r["suite"] = b.stdout.strip().splitlines()[:4]
                    results[mu["id"]] = r
                    print(mu["id"], r["status"], flush=True)
                    continue
                env = dict(os.environ, TW_VERIF_SRC=os.path.join(wt, "src"))
                t0 = time.time()
                k = sh("./check %s --tier quick" % mu["property"], env=env, cwd=vcopy, timeout=3600)
                viol = re.findall(r"VIOLATION property=(\S+) replay=(\S+)", k.stdout)
                clauses = sorted(set(re.findall(r"^  clause=(\S+) ", k.stdout, re.M)))
                r.update({"check_exit": k.returncode, "violations": len(viol), "clauses": clauses[:8], "wall_s": round(time.time() - t0, 1)})
                if k.returncode == 1:
                    r["status"] = "caught"
                    if viol and os.path.exists(viol[0][1]):
                        ra = sh("./check %s --replay %s" % (mu["property"], viol[0][1]), env=env, cwd=vcopy)
                        rb = sh("./check %s --replay %s" % (mu["property"], viol[0][1]), cwd=vcopy)
                        r["replay_fails_on_mutant"] = ra.returncode == 1
                        r["replay_passes_on_real_tree"] = rb.returncode == 0
                        try:
                            r["counterexample"] = json.dumps(json.load(open(viol[0][1]))["case"])[:400]
                        except Exception:
                            pass
                elif k.returncode == 0:
                    r["status"] = "survived"
                else:
                    r["status"] = "harness-error"
                    r["error"] = (k.stdout + k.stderr)[-600:]
                results[mu["id"]] = r
                print(mu["id"], r["status"], r.get("clauses"), r.get("wall_s"), flush=True)
            finally:
                sh("git -C /repo worktree remove --force %s" % wt)
                shutil.rmtree(wt, ignore_errors=True)
                json.dump(results, open(resf, "w"), indent=1)
    finally:
        shutil.rmtree(vcopy, ignore_errors=True)
        sh("git -C /repo worktree prune")
    lines = ["# Own mutant catalogue - results", "",
             "Each mutant is applied to a scratch worktree of /repo HEAD; it must import and keep the pinned suite green (otherwise it",
             "is not a valid mutant and is listed as such); then the quick check of the expected property runs against it.", "",
             "| mutant | property | status | clauses reported | replay fails on mutant / passes on real tree | note |", "|---|---|---|---|---|---|"]
    for mid, r in results.items():
        lines.append("| %s | %s | %s | %s | %s / %s | %s |" % (mid, r["property"], r["status"], ", ".join(r.get("clauses", [])[:4]),
                                                            r.get("replay_fails_on_mutant", ""), r.get("replay_passes_on_real_tree", ""), r.get("note", "")))
    open(os.path.join(ROOT, "mutants", "RESULTS.md"), "w").write("\n".join(lines) + "\n")


if __name__ == "__main__":
    main()
