#!/venv/bin/python
"""Evaluate one behaviour-preserving change: tools/eval_refactor.py refactors/<id>   (expects refactor.diff)
applies it to a scratch worktree of /repo HEAD, requires the pinned suite to stay green, then runs the quick checks of all
properties whose anchored files the patch touches (plus the property it was written for): every check must stay SILENT
(exit 0).  Writes <dir>/result.json."""
import json, os, re, shutil, subprocess, sys, tempfile, time
ROOT = os.path.dirname(os.path.dirname(os.path.abspath(__file__)))


def sh(cmd, **kw):
    return subprocess.run(cmd, shell=True, capture_output=True, text=True, **kw)


def main():
    d = os.path.abspath(sys.argv[1])
    own = os.path.basename(d).split("-")[0]
    patch = os.path.join(d, "refactor.diff")
    props = [json.loads(l) for l in open(os.path.join(ROOT, "properties.jsonl"))]
    touched = set(re.findall(r"^\+\+\+ b/(\S+)", open(patch).read(), re.M))
    rel = sorted({p["id"] for p in props if any(t == f or (f.endswith("/") and t.startswith(f)) for t in touched for f in p["anchors"]["files"])} | {own})
    if len(sys.argv) > 2:
        rel = sys.argv[2].split(",")
    wt = tempfile.mkdtemp(prefix="twref-", dir="/tmp"); os.rmdir(wt)
    vcopy = tempfile.mkdtemp(prefix="twverifcopy-", dir="/tmp")
    res = {"dir": d, "touched": sorted(touched), "checks_run": rel, "repo_head": sh("git -C /repo rev-parse --short HEAD").stdout.strip()}
    try:
        sh("git -C /repo worktree add -q --detach %s HEAD" % wt)
        r = sh("git -C %s apply %s" % (wt, patch))
        res["patch_applies"] = r.returncode == 0
        if r.returncode:
            res["apply_error"] = r.stderr[-300:]
            json.dump(res, open(os.path.join(d, "result.json"), "w"), indent=1); print("DOES NOT APPLY"); return 1
        b = sh("%s/tools/run_baseline.sh %s" % (ROOT, wt))
        res["suite_passes"] = b.returncode == 0
        res["suite_summary"] = b.stdout.strip().splitlines()[:4]
        sh("rsync -a --exclude .git --exclude replays --exclude evidence --exclude seeded --exclude refactors --exclude __pycache__ %s/ %s/" % (ROOT, vcopy))
        res["checks"] = {}
        for c in rel:
            t0 = time.time()
            k = sh("./check %s --tier quick" % c, env=dict(os.environ, TW_VERIF_SRC=os.path.join(wt, "src")), cwd=vcopy, timeout=3600)
            clauses = sorted(set(re.findall(r"^  clause=(\S+) ", k.stdout, re.M)))
            e = {"exit": k.returncode, "clauses": clauses[:8], "wall_s": round(time.time() - t0, 1)}
            if k.returncode:
                e["output"] = (k.stdout + k.stderr)[-1500:]
                viol = re.findall(r"VIOLATION property=\S+ replay=(\S+)", k.stdout)
                if viol and os.path.exists(viol[0]):
                    e["first_counterexample"] = open(viol[0]).read()[:1500]
            res["checks"][c] = e
            print("%s exit=%d %s %.0fs" % (c, k.returncode, clauses[:4], e["wall_s"]), flush=True)
        res["alarms"] = [c for c, e in res["checks"].items() if e["exit"] != 0]
    finally:
        sh("git -C /repo worktree remove --force %s" % wt); shutil.rmtree(wt, ignore_errors=True); shutil.rmtree(vcopy, ignore_errors=True); sh("git -C /repo worktree prune")
    json.dump(res, open(os.path.join(d, os.environ.get("REF_OUT", "result.json")), "w"), indent=1)
    print(os.path.basename(d), "suite_passes=%s alarms=%s" % (res.get("suite_passes"), res.get("alarms")))
    return 0


if __name__ == "__main__":
    sys.exit(main())
