#!/bin/sh
# tools/import_seeded.sh C10   -> copies /tmp/wt_C10/_out/{patchN.diff,demoN.py,notesN.md} into seeded/C10-N/
P=$1
for n in 1 2; do
  src=/tmp/wt_$P/_out
  [ -f $src/patch$n.diff ] || continue
  d=/verif/seeded/$P-$n
  mkdir -p $d
  cp $src/patch$n.diff $d/patch.diff
  cp $src/demo$n.py $d/demo.py
  [ -f $src/notes$n.md ] && cp $src/notes$n.md $d/notes.md
  echo imported $d
done
