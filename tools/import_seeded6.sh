#!/bin/sh
# wave 6 -> the next two free indices of the property; wave recorded in seeded/<id>/wave
P=$1
for n in 1 2; do
  src=/tmp/w6_$P/_out
  [ -f $src/patch$n.diff ] || continue
  k=1; while [ -d /verif/seeded/$P-$k ]; do k=$((k+1)); done
  d=/verif/seeded/$P-$k
  mkdir -p $d
  cp $src/patch$n.diff $d/patch.diff; cp $src/demo$n.py $d/demo.py; [ -f $src/notes$n.md ] && cp $src/notes$n.md $d/notes.md
  if [ $n = 1 ]; then echo "6 (A: an optimisation that is almost right)" > $d/wave; else echo "6 (B: only beyond the small cases)" > $d/wave; fi
  echo imported $d
done
