#!/bin/sh
# tools/eval7.sh <seeded id>: own-property check without the wave-7 additions (result_before.json), then with them (result_after.json)
cd /verif
id=$1; prop=${id%-*}; d=seeded/$id
if [ ! -f $d/result_before.json ]; then
  TW_VERIF_NO_FORMS=1 TW_VERIF_NO_W7=1 /venv/bin/python tools/eval_seeded.py $d --checks $prop --out result_before.json > /tmp/eval7_${id}_before.log 2>&1
fi
/venv/bin/python tools/eval_seeded.py $d --checks $prop --skip-suite --out result_after.json > /tmp/eval7_${id}_after.log 2>&1
/venv/bin/python - $d <<'P'
import json,sys
for t in ("before","after"):
    try: r=json.load(open(sys.argv[1]+"/result_%s.json"%t))
    except Exception as e: print(t, "missing"); continue
    print(sys.argv[1].split('/')[-1], t, 'applies=%s suite_ok=%s demo=%s/%s caught_by=%s'%(r.get('patch_applies'), r.get('suite_passes'), r.get('demo_exit_on_changed'), r.get('demo_exit_on_clean'), r.get('caught_by')), {c:(e['exit'], e['clauses'][:4], e.get('replay_fails_on_changed'), e.get('replay_passes_on_clean')) for c,e in r.get('checks',{}).items()})
P
