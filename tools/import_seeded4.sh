#!/bin/sh
# wave 4 -> seeded/Cxx-5, Cxx-6
P=$1
for n in 1 2; do
  src=/tmp/w4_$P/_out
  [ -f $src/patch$n.diff ] || continue
  d=/verif/seeded/$P-$((n+4))
  mkdir -p $d
  cp $src/patch$n.diff $d/patch.diff; cp $src/demo$n.py $d/demo.py; [ -f $src/notes$n.md ] && cp $src/notes$n.md $d/notes.md
  echo imported $d
done
