#!/bin/sh
# tools/intake.sh <PROP> <worktree> <wave-label-A> <wave-label-B>: copy a seeding agent's two deliveries into seeded/<PROP>-<k>/
P=$1; W=$2
cd /verif
last=$(ls -d seeded/$P-* | sed "s/.*-//" | sort -n | tail -1)
for i in 1 2; do
  k=$((last + i)); d=seeded/$P-$k
  [ -f $W/_out/patch$i.diff ] || { echo "missing patch$i"; continue; }
  mkdir -p $d
  cp $W/_out/patch$i.diff $d/patch.diff; cp $W/_out/demo$i.py $d/demo.py; cp $W/_out/notes$i.md $d/notes.md 2>/dev/null
  sed -i "s#$W#/tmp/SCRATCH#g" $d/demo.py $d/notes.md 2>/dev/null
  if [ $i = 1 ]; then echo "$3" > $d/wave; else echo "$4" > $d/wave; fi
  echo $d
done
