#!/venv/bin/python
"""refactors/README.md from refactors/*/result.json"""
import glob, json, os
ROOT = os.path.dirname(os.path.dirname(os.path.abspath(__file__)))
rows = []
for f in sorted(glob.glob(os.path.join(ROOT, "refactors", "*", "result.json"))):
    r = json.load(open(f)); d = os.path.dirname(f); n = os.path.basename(d)
    title = ""
    nf = os.path.join(d, "notes.md")
    if os.path.exists(nf):
        for l in open(nf):
            if l.strip():
                title = l.strip().lstrip("# ").strip()[:110]; break
    ff = os.path.join(d, "result_final.json")
    fin = json.load(open(ff)) if os.path.exists(ff) else None
    fin_txt = "-" if fin is None else ("%s: %s" % (" ".join(sorted(fin["checks"])), ", ".join(fin["alarms"]) or "silent"))
    rows.append("| %s | %s | %s | %s | %s | %s | %s |" % (n, title.replace("|", "/"), ", ".join(os.path.basename(t) for t in r["touched"]),
                "yes" if r.get("suite_passes") else "NO", " ".join(sorted(r["checks"])), ", ".join(r["alarms"]) or "none", fin_txt))
open(os.path.join(ROOT, "refactors", "README.md"), "w").write(
    "# Behaviour-preserving changes (wave 5): every check must stay silent\n\n"
    "Written by fresh sub-agents that saw only the property text and a scratch worktree (DESIGN.md 8.5). Each directory holds\n"
    "`refactor.diff`, the agent's `notes.md`, `result.json` (tools/eval_refactor.py) and `eval.log`.\n\n"
    "`result_final.json` / last column: the property's own quick check re-run after the checks were strengthened in response to wave 6.\n\n"
    "| id | what | files | suite green | quick checks run (TW_VERIF_SRC = changed tree) | alarms | own check after wave-6 strengthening |\n|---|---|---|---|---|---|---|\n" + "\n".join(rows) + "\n")
print(len(rows), "rows")
