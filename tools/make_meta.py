#!/venv/bin/python
"""Writes seeded/<id>/meta.json from notes.md and the recorded evaluation results, and seeded/README.md (overview table)."""
import json, os, re
ROOT = os.path.dirname(os.path.dirname(os.path.abspath(__file__)))
S = os.path.join(ROOT, "seeded")
rows = []
for i in sorted(os.listdir(S)):
    d = os.path.join(S, i)
    if not os.path.isdir(d) or not os.path.exists(os.path.join(d, "patch.diff")):
        continue
    notes = open(os.path.join(d, "notes.md")).read() if os.path.exists(os.path.join(d, "notes.md")) else ""
    def load(n):
        p = os.path.join(d, n)
        return json.load(open(p)) if os.path.exists(p) and os.path.getsize(p) > 2 else None
    before, after, full, final = load("result_before.json"), load("result_after.json"), load("result.json"), load("result_final.json")
    own = i.split("-")[0]
    k = int(i.split("-")[1])
    wave = 1 if k <= 2 else 2 if k <= 4 else (3 if own == "C19" else 4)
    if os.path.exists(os.path.join(d, "wave")):
        wave = open(os.path.join(d, "wave")).read().strip()
    touched = sorted(set(re.findall(r"^\+\+\+ b/(\S+)", open(os.path.join(d, "patch.diff")).read(), re.M)))
    def caught(r):
        return None if r is None else sorted(r.get("caught_by", []))
    ref = final or full or after or before or {}
    meta = {
        "id": i, "breaks_property": own, "wave": wave, "origin": "independent sub-agent given only the property text and a scratch worktree",
        "files_changed": touched,
        "what_it_needs_to_manifest_and_why": notes.strip()[:2500],
        "confirmed_by_me": {"patch_applies_to_repo_head": ref.get("patch_applies"), "pinned_suite_still_passes": (before or ref).get("suite_passes"),
                            "demo_exit_on_changed_tree": ref.get("demo_exit_on_changed"), "demo_exit_on_clean_tree": ref.get("demo_exit_on_clean")},
        "what_i_ran": "tools/eval_seeded.py <dir> (scratch worktree of /repo HEAD + git apply, tools/run_baseline.sh there, demo on both trees, "
                      "./check <IDs> --tier quick with TW_VERIF_SRC=<worktree>/src, replay of the first violation on both trees)",
        "own_check_before_strengthening": caught(before), "own_check_after_strengthening": caught(after) if after else caught(full),
        "own_check_final": None if final is None else {c: {"exit": e["exit"], "clauses": e.get("clauses", [])[:6], "replay_fails_on_changed": e.get("replay_fails_on_changed"),
                                                         "replay_passes_on_clean": e.get("replay_passes_on_clean"), "first_counterexample": e.get("first_counterexample")}
                                                     for c, e in final.get("checks", {}).items()},
        "related_checks_final": {c: {"exit": e["exit"], "clauses": e.get("clauses", [])[:4], "replay_fails_on_changed": e.get("replay_fails_on_changed"),
                                     "replay_passes_on_clean": e.get("replay_passes_on_clean")} for c, e in (full or {}).get("checks", {}).items()},
    }
    json.dump(meta, open(os.path.join(d, "meta.json"), "w"), indent=1)
    fin = full or after or {}
    allc = sorted(set((caught(fin) or []) + (caught(final) or []) + (caught(after) or [])))
    note = ""
    if i == "C20-5":
        note = "neutralised by repair D11 (demo passes on the repaired tree)"
    rows.append((i, own, wave, ", ".join(touched).replace("src/traffic_weaver/", ""), "yes" if caught(before) else "no",
                 ("yes" if own in (caught(final) or []) else ("-" if final is None else "NO")), ", ".join(allc) or "-",
                 ", ".join((fin.get("harness_errors") or [])) or "-", note))
with open(os.path.join(S, "README.md"), "w") as f:
    f.write("# Seeded changes (independent sub-agents; each breaks one property, compiles, keeps the pinned suite green)\n\n")
    f.write("`own check, before` = the property's own quick check as it was when the change arrived; `own check, final` = the final machinery "
            "(tools/eval_final.sh); `caught by` = union over the own check and the related-check matrix (checks of all properties whose anchored "
            "files the patch touches; run for waves 1-2 with the machinery of that time).\n\n")
    f.write("| id | property | wave | files | own check, before | own check, final | caught by | harness errors (exit 2) in related checks | note |\n|---|---|---|---|---|---|---|---|---|\n")
    for r in rows:
        f.write("| %s | %s | %s | %s | %s | %s | %s | %s | %s |\n" % r)
print(len(rows), "meta files")
